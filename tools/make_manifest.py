#!/usr/bin/env python3
"""Writes /verif/MANIFEST.json from the tables below (kept in one place so the
manifest, the CLI and DESIGN.md do not drift)."""
import json, os, sys
HERE = os.path.dirname(os.path.dirname(os.path.abspath(__file__)))

CLAIMED = {
 "C13": ("io", "Seeded search over interleaved write/read sessions of one process on a simulated disk "
         "(open/write/close/read errors, interrupts at traced line events, crash with torn files and emulated "
         "restart, clock jumps) with a file-catalogue reference model: every read of an acknowledged, intact "
         "file with the matching format must return the written track/network to the promised precision. "
         "Sampled, not exhaustive; exact replay of every failure.",
         "SimFS / SimClock stand in for disk and clock; restart after crash is emulated in-process; "
         "the model and oracles in sim/worlds/io.py are trusted; KML / GeoJSON are only run as exports before a CSV "
         "round trip, NMEA and named track formats are not run, values of CSV feature columns are not judged.",
         "§4 C13"),
 "C01": ("track", "Seeded search over long operation histories (create / update / delete / bracket assignment / "
         "every operator object / random expression trees of 2..14 operator applications / rejected requests / "
         "user callables that raise at a seeded invocation / operators refusing values outside their domain / forked, "
         "span-copied and noised copies) on long-lived tracks of several interleaved sessions, checked after every "
         "step against an independent column model with unique values; tracks are also handed to collection-level wrappers "
         "and to read-only functions of neighbouring modules, which must leave no trace.",
         "In-memory world: injected faults are refused requests, failing user callables and provoked domain errors "
         "(never pre-emption inside library code); values of operators without a one-line definition are adopted, "
         "not judged; atomicity of a refused call is not demanded; model in sim/worlds/track.py is trusted.", "§4 C01"),
 "C04": ("track", "Seeded search over histories of sort / sortRadix / chronological insert / removal / pop / slicing, "
         "span, concatenation, decimation and trimming operators on long-lived tracks with duplicate timestamps, calendar "
         "boundaries and feature columns; results kept as sessions of their own (span copies, reversed copies, "
         "concatenations holding one Obs twice); each result compared with a list model and the source compared before/after.",
         "In-memory world, faults are refused requests only; model in sim/worlds/track.py is trusted.", "§4 C04"),
 "C17": ("track", "Seeded search over histories that recompute abs_curv / speed / ds on the same track after deletions, "
         "other feature operations, in-place transformations and timestamp edits (the cached-feature paths, the "
         "always-recomputing addAnalyticalFeature path, caller-computed ds), on several interleaved sessions including "
         "noised, span and idle-end-trimmed copies, profile plots and stop detection as further users of the speeds, several "
         "local time zones of the process, compared with the geometric definitions.",
         "Thin claim: the arithmetic is a pure function and only sampled; a cache that predates a geometry edit is "
         "recorded, not judged.", "§4 C17"),
 "C06": ("net", "Seeded search over query histories on long-lived growing multigraphs (single pair, one-to-all, "
         "all-pairs with cut-off, prepared tables modelled exactly incl. accumulation, edge re-weighing, sub-network "
         "extraction sharing objects with its parent, network reload and save_prep / load_prep on the simulated disk "
         "with open/read/write errors, interrupted preparations, refused requests, junctions declared on their own, numpy-typed "
         "identifiers and weights), every answer compared with Floyd-Warshall on an independent model.",
         "Weights are small dyadic rationals (also scaled by 2^-34) or geometric lengths; single-pair distance queries with "
         "a finite cut are not generated; networks with identifiers of mixed types are not generated; the state after a "
         "failed addEdge is not judged; model in sim/worlds/net.py is trusted.", "§4 C06"),
 "C07": ("net", "Same histories with shortest_path: node list is a permitted walk of optimal weight and the geometry "
         "is the chained, travel-oriented edge polylines (dynamic programme over parallel edges); two-phase API with other "
         "users' calls (extractions, deep copies, half of them interrupted) between the phases; searches bounded by the exact distance.",
         "As C06; junction vertices of a network that went through geographic coordinates are compared to 0.1 mm.", "§4 C07"),
 "C10": ("net", "Seeded search over sequences of map-matching calls that share module globals, a network, its spatial "
         "index and prepared distances (two alternating sessions, re-mapping, growth between calls, networks loaded "
         "from simulated disk, unit change in place, geographic round trips, ring roads, densely digitised roads, interrupts inside "
         "the matching with retries, I/O errors on its debug file, matched points edited by their caller); every inferred state "
         "checked geometrically.",
         "HMM optimality is C09's subject and not judged; networks with degenerate extent are not indexed; road networks are "
         "consistent (a junction is where its roads end); three known findings in proj_segment are listed, not raised.", "§4 C10"),
}
NA = {
 "C02": "pure function of (expression, feature vectors): the evaluator keeps a local temporary counter and purges every '#' feature before returning; nothing for a schedule or fault to decide (state-transition clauses are exercised under C01)",
 "C03": "pure calendar arithmetic on seven integers; reads no clock, no global format, no storage",
 "C05": "resample replaces the observation list from (track, spec) in one call; no state survives a call, no I/O, no clock",
 "C08": "index construction and queries are read-only arithmetic on the grid built in one call; no history, clock, storage or fault is part of the statement",
 "C09": "HMM.estimate fills two local tables from the supplied callables; the HMM object holds configuration only",
 "C11": "segmentation/split are folds and slices of their arguments; pure",
 "C12": "optimalPartition is an interval dynamic programme on its matrix argument; pure",
 "C14": "closed-form coordinate conversions; Track.base is written and read within the call pair the property names",
 "C15": "Filter.execute is a windowed sum over one feature; kernels are immutable after construction",
 "C16": "Douglas-Peucker / Visvalingam work on a private copy of their argument; pure",
 "C18": "DTW / FDTW fill local matrices / a local priority dict; pure",
 "C19": "addCollectionToRaster rebuilds the value grid from scratch on every call; no accumulation across calls, no I/O in the property",
 "C20": "proj_segment / proj_polyligne are arithmetic on their arguments",
}

def main(claimed_ids):
    checks = []
    for pid in claimed_ids:
        world, text, note, ref = CLAIMED[pid]
        checks.append({
            "property_id": pid,
            "quick_cmd": "./verif check %s --tier quick" % pid,
            "thorough_cmd": "./verif check %s --tier thorough" % pid,
            "evidence_file": "/verif/evidence/%s.json" % pid,
            "replay_cmd_template": "./verif replay {path}",
            "engine": "sim-" + world,
            "level_claimed": {"category": "exploration", "text": text, "design_ref": "DESIGN.md " + ref},
            "level_note": note,
            "technique": "deterministic simulation with fault injection: seeded search over step/fault schedules against a reference model",
        })
    na = [{"property_id": k, "reason": v} for k, v in sorted(NA.items())]
    for pid in sorted(CLAIMED):
        if pid not in claimed_ids:
            na.append({"property_id": pid, "reason": "simulation target (DESIGN.md §4), check not yet built in this commit"})
    man = {
        "version": 1,
        "setup_cmd": "./verif setup",
        "hooks": {"guard": "TRACKLIB_VERIF", "enable": "no hook is needed: seams are module attributes (open, os, datetime) set from outside at run time",
                  "baseline_off_cmd": "/venv/bin/python /verif/tools/baseline.py", "source_commits": [], "add_only": True},
        "engines": [
            {"name": "sim-io", "path": "/verif/sim/worlds/io.py", "serves_properties": ["C13"],
             "kind_free_text": "deterministic simulator: sessions x simulated disk/clock x fault plan, file-catalogue model"},
            {"name": "sim-track", "path": "/verif/sim/worlds/track.py", "serves_properties": ["C01", "C04", "C17"],
             "kind_free_text": "deterministic simulator: operation histories on long-lived tracks, column/list model"},
            {"name": "sim-net", "path": "/verif/sim/worlds/net.py", "serves_properties": ["C06", "C07", "C10"],
             "kind_free_text": "deterministic simulator: query/map-matching histories on long-lived networks, Floyd-Warshall and geometric model"},
        ],
        "checks": checks,
        "not_applicable": sorted(na, key=lambda x: x["property_id"]),
        "notes": "Technique: deterministic simulation with fault injection (DESIGN.md). VERIF_SEED selects the batch seed; "
                 "exit 2 + HARNESS-ERROR is a harness failure, never a violation. Repairs of genuine defects are 'fix:' commits in /repo, listed in known_findings.json.",
    }
    with open(os.path.join(HERE, "MANIFEST.json"), "w") as f:
        json.dump(man, f, indent=1)
        f.write("\n")

if __name__ == "__main__":
    main(sys.argv[1:])
