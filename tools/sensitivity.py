#!/usr/bin/env python3
"""Sensitivity self-test: break a property on purpose in a scratch copy of the
repository (under /dev/shm, removed afterwards), confirm that the property's
quick check reports a VIOLATION within its budget, and (optionally, --baseline)
that the mutation keeps the pinned test suite green — a mutation the suite
already catches proves nothing about the check.

usage: sensitivity.py [--baseline] [--only ID[,ID]] [--jobs N] [--runs N]
Writes /verif/evidence/sensitivity.json.
"""
import argparse
import json
import os
import shutil
import subprocess
import sys
import tempfile
import time
from concurrent.futures import ThreadPoolExecutor

HERE = os.path.dirname(os.path.dirname(os.path.abspath(__file__)))
REPO = "/repo"

# id, property, file, old, new, note
M = [
 ("m01_no_index_shift", "C01", "tracklib/core/track.py",
  "            if self.__analyticalFeaturesDico[k] > idAF:\n                self.__analyticalFeaturesDico[k] -= 1",
  "            if self.__analyticalFeaturesDico[k] > idAF + 1:\n                self.__analyticalFeaturesDico[k] -= 1",
  "removeAnalyticalFeature does not shift the column right after the deleted one"),
 ("m02_keep_temporaries", "C01", "tracklib/core/track.py",
  "                    if af[0] == \"#\":\n                        self.removeAnalyticalFeature(af)",
  "                    if af[0] == \"#\" and af != \"#1\":\n                        self.removeAnalyticalFeature(af)",
  "operate(str) leaves the second evaluator temporary listed"),
 ("m03_update_skips_last", "C01", "tracklib/core/track.py",
  "        if isinstance(new_val, list):\n            for i in range(self.size()):\n                self.getObs(i).features[idAF] = new_val[i]",
  "        if isinstance(new_val, list):\n            for i in range(self.size() - (self.size() > 9)):\n                self.getObs(i).features[idAF] = new_val[i]",
  "updateAnalyticalFeature with a list forgets the last observation of tracks longer than 9"),
 ("m04_insertion_no_fixup", "C04", "tracklib/core/track.py",
  "        while self.getObs(id).timestamp > timestamp:\n            if id == 0:\n                break\n            id -= 1\n",
  "",
  "chronological insertion without the first linear fix-up loop"),
 ("m05_mod_offset", "C04", "tracklib/core/track.py",
  "            track = Track(self.__POINTS[::sample], self.uid, self.tid, base=self.base)",
  "            track = Track(self.__POINTS[sample - 1 :: sample], self.uid, self.tid, base=self.base)",
  "t % n starts at index n-1"),
 ("m06_extract_excl", "C04", "tracklib/core/track.py",
  "        for k in range(id_ini, id_fin + 1):\n            track.addObs(self.__POINTS[k])",
  "        for k in range(id_ini, id_fin + (id_fin - id_ini < 7)):\n            track.addObs(self.__POINTS[k])",
  "extract drops the last observation of long extractions"),
 ("m07_integrator_lag", "C17", "tracklib/core/operators.py",
  "            temp[i] = temp[i - 1] + track.getObsAnalyticalFeature(af_input, i)\n",
  "            temp[i] = temp[i - 1] + track.getObsAnalyticalFeature(af_input, i - (track.size() > 6))\n",
  "Integrator lags by one sample on tracks longer than 6 (abs_curv no longer ends at the length)"),
 ("m08_speed_denominator", "C17", "tracklib/algo/analytics.py",
  "    ds = track.getObs(i + 1).position.distance2DTo(track.getObs(i - 1).position)\n    dt = track.getObs(i + 1).timestamp - track.getObs(i - 1).timestamp\n",
  "    ds = track.getObs(i + 1).position.distance2DTo(track.getObs(i - 1).position)\n    dt = track.getObs(i + 1).timestamp - track.getObs(i).timestamp\n",
  "interior speed divides by the forward interval only"),
 ("m09_abscurv_keeps_ds", "C17", "tracklib/algo/cinematics.py",
  "    track.removeAnalyticalFeature(BIAF_DS)\n",
  "    if track.size() % 5 != 0:\n        track.removeAnalyticalFeature(BIAF_DS)\n",
  "computeAbsCurv leaves ds listed on tracks whose size is a multiple of 5"),
 ("m10_gpx_no_restore", "C13", "tracklib/io/track_writer.py",
  "        finally:\n            # re-initialize time format, also when writing fails\n            ObsTime.setPrintFormat(fmt_save)",
  "        finally:\n            # re-initialize time format, also when writing fails\n            if oneFile or len(tracks) < 3:\n                ObsTime.setPrintFormat(fmt_save)",
  "writeToGpx does not restore the print format after writing 3+ tracks to a directory"),
 ("m11_csv_precision", "C13", "tracklib/io/track_writer.py",
  "        if track.getSRID().upper() == \"ECEF\":\n            float_fmt = \"{:10.3f}\"",
  "        if track.getSRID().upper() == \"ECEF\":\n            float_fmt = \"{:10.2f}\"",
  "ECEF coordinates written with 2 decimals"),
 ("m12_reader_swallows_eio", "C13", "tracklib/io/track_reader.py",
  "                line = fp.readline().strip()\n\n        fp.close()\n\n        # Reading other features",
  "                try:\n                    line = fp.readline().strip()\n                except OSError:\n                    line = \"\"\n\n        fp.close()\n\n        # Reading other features",
  "CSV reader treats an I/O error as end of file (returns a truncated track as if nothing happened)"),
 ("m13_net_orientation", "C13", "tracklib/io/network_reader.py",
  "        if orientation not in [Edge.DOUBLE_SENS, Edge.SENS_DIRECT, Edge.SENS_INVERSE]:",
  "        if orientation not in [Edge.DOUBLE_SENS, Edge.SENS_DIRECT]:",
  "network reader turns reverse-only edges into two-way edges"),
 ("m14_dijkstra_cut_ge", "C06", "tracklib/core/network.py",
  "            if (pere.poids > cut) or (pere.id == target):",
  "            if (pere.poids >= cut) or (pere.id == target):",
  "pairs at exactly the cut-off distance are dropped"),
 ("m15_stale_labels", "C06", "tracklib/core/network.py",
  "        for elem in self.NODES.items():\n            elem[1].poids = -1\n",
  "        for elem in self.NODES.items():\n            if elem[1].poids > 3: elem[1].poids = -1\n",
  "labels <= 3 of the previous search survive the reset: answers depend on the query history"),
 ("m16_reverse_lt", "C06", "tracklib/core/network.py",
  "        if edge.orientation <= 0:\n            self.NEXT_EDGES[target.id].append(edge.id)",
  "        if edge.orientation < 0:\n            self.NEXT_EDGES[target.id].append(edge.id)",
  "two-way edges cannot be traversed from target to source"),
 ("m17_no_geom_reverse", "C07", "tracklib/core/network.py",
  "            if e.source != node:\n                edge_geom = edge_geom.reverse()",
  "            if e.source != node and edge_geom.size() < 3:\n                edge_geom = edge_geom.reverse()",
  "multi-vertex edges travelled source->target keep the wrong orientation in the path geometry"),
 ("m18_keep_shared_vertex", "C07", "tracklib/core/network.py",
  "            track = track + (edge_geom > 1)",
  "            track = track + (edge_geom > (1 if len(NODES_PATH) < 3 else 0))",
  "junction vertices are repeated from the third edge of a path on"),
 ("m19_radius_ignored", "C10", "tracklib/algo/mapping.py",
  "                if d < search_radius:",
  "                if d < search_radius * 1.5:",
  "candidates up to 1.5 x search radius are accepted"),
 ("m20_dist_to_node", "C10", "tracklib/algo/mapping.py",
  "            - si2\n            + track[i + 1].position.distance2DTo(coord)",
  "            - si1\n            + track[i + 1].position.distance2DTo(coord)",
  "distance to the target end uses the abscissa of the wrong vertex"),
 ("m21_stale_states", "C10", "tracklib/algo/mapping.py",
  "    global STATES\n    global net\n    STATES = []\n    net = network",
  "    global STATES\n    global net\n    STATES = []\n    if 'net' not in globals() or len(track) != 3:\n        net = network",
  "3-fix tracks are matched against the network of the previous call (module global not refreshed)"),
]


def run(cmd, env=None, timeout=1800):
    p = subprocess.run(cmd, shell=True, env=env, stdout=subprocess.PIPE, stderr=subprocess.STDOUT, text=True,
                       timeout=timeout)
    return p.returncode, p.stdout


def one(mut, args):
    mid, prop, path, old, new, note = mut
    d = tempfile.mkdtemp(prefix="sens_" + mid + "_", dir="/dev/shm")
    rec = {"id": mid, "property": prop, "file": path, "note": note}
    try:
        run("cd %s && git archive HEAD | tar -x -C %s" % (REPO, d))
        f = os.path.join(d, path)
        s = open(f).read()
        if s.count(old) != 1:
            rec["status"] = "PATCH-DOES-NOT-APPLY (%d matches)" % s.count(old)
            return rec
        open(f, "w").write(s.replace(old, new))
        env = dict(os.environ, VERIF_REPO=d)
        env.pop("VERIF_CHILD", None)
        t0 = time.time()
        extra = (" --runs %d" % args.runs) if args.runs else ""
        rc, out = run("cd %s && ./verif check %s --tier quick%s" % (HERE, prop, extra), env)
        rec["check_rc"] = rc
        rec["check_s"] = round(time.time() - t0, 1)
        rec["detected"] = rc == 1 and ("VIOLATION property=%s" % prop) in out
        rec["check_tail"] = [l for l in out.splitlines() if l.startswith(("violation", "VIOLATION", "HARNESS", "KNOWN"))][:4]
        if args.baseline:
            env2 = dict(os.environ, MPLBACKEND="Agg")
            rc2, out2 = run("cd %s && /venv/bin/python -m pytest -q -p no:cacheprovider --timeout=900 "
                            "--continue-on-collection-errors "
                            "--junitxml=%s/junit.xml >/dev/null 2>&1; /venv/bin/python %s/tools/baseline_cmp.py %s/junit.xml"
                            % (d, d, HERE, d), env2)
            rec["suite_green"] = rc2 == 0
            rec["suite_tail"] = out2.strip().splitlines()[-3:]
        rec["status"] = "ok"
        return rec
    finally:
        shutil.rmtree(d, ignore_errors=True)


def main():
    ap = argparse.ArgumentParser()
    ap.add_argument("--baseline", action="store_true")
    ap.add_argument("--only")
    ap.add_argument("--jobs", type=int, default=2)
    ap.add_argument("--runs", type=int)
    args = ap.parse_args()
    muts = [m for m in M if not args.only or m[0] in args.only.split(",") or m[1] in args.only.split(",")]
    with ThreadPoolExecutor(args.jobs) as ex:
        recs = list(ex.map(lambda m: one(m, args), muts))
    for r in recs:
        print("%-26s %s %-8s detected=%s suite_green=%s %s" % (r["id"], r["property"], r.get("status"),
              r.get("detected"), r.get("suite_green"), (r.get("check_tail") or [""])[0][:110]))
    out = os.path.join(HERE, "evidence", "sensitivity.json")
    if not args.only:
        os.makedirs(os.path.dirname(out), exist_ok=True)
        json.dump({"mutations": recs}, open(out, "w"), indent=1)
    bad = [r for r in recs if r.get("status") != "ok" or not r.get("detected")]
    return 1 if bad else 0


if __name__ == "__main__":
    sys.exit(main())
