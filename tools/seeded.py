#!/usr/bin/env python3
"""Seeded changes (written by independent sub-agents that saw only the property
text): ingest, confirm, and run the checks against them.

  seeded.py ingest <srcdir> <id> <property>   copy patch.diff / demo.py / notes.md to /verif/seeded/<id>/ and
                                              confirm in a scratch copy: patch applies, demo passes without and
                                              fails with the change, the pinned suite stays green
  seeded.py run [--only id,...] [--tier quick|thorough] [--jobs N]
                                              run each change's property check against a scratch copy with the
                                              change applied; table to stdout and evidence/seeded.json

Scratch copies live under /dev/shm and are removed as soon as they are done with.
"""
import argparse
import json
import os
import shutil
import subprocess
import sys
import tempfile
import time
from concurrent.futures import ThreadPoolExecutor

HERE = os.path.dirname(os.path.dirname(os.path.abspath(__file__)))
REPO = "/repo"
PY = "/venv/bin/python"


def sh(cmd, env=None, timeout=3600, cwd=None):
    p = subprocess.run(cmd, shell=True, env=env, cwd=cwd, stdout=subprocess.PIPE, stderr=subprocess.STDOUT,
                       text=True, timeout=timeout)
    return p.returncode, p.stdout


def scratch(patch=None):
    d = tempfile.mkdtemp(prefix="seeded_", dir="/dev/shm")
    sh("git -C %s archive HEAD | tar -x -C %s" % (REPO, d))
    if patch:
        rc, out = sh("patch -p1 -s < %s" % patch, cwd=d)
        if rc != 0:
            shutil.rmtree(d, ignore_errors=True)
            raise RuntimeError("patch does not apply: " + out)
    return d


def run_demo(tree, demo):
    env = dict(os.environ, PYTHONPATH=tree, MPLBACKEND="Agg", PYTHONDONTWRITEBYTECODE="1")
    with tempfile.TemporaryDirectory(dir="/dev/shm") as cwd:
        return sh("%s -W ignore %s" % (PY, demo), env=env, cwd=cwd, timeout=600)


def suite(tree):
    env = dict(os.environ, MPLBACKEND="Agg", PYTHONPATH=tree, PYTHONDONTWRITEBYTECODE="1")
    rc, out = sh("cd %s && %s -m pytest -q -p no:cacheprovider --timeout=900 --continue-on-collection-errors "
                 "--junitxml=%s/junit.xml >/dev/null 2>&1; %s %s/tools/baseline_cmp.py %s/junit.xml"
                 % (tree, PY, tree, PY, HERE, tree), env=env)
    return rc == 0, out.strip().splitlines()[-1] if out.strip() else ""


def ingest(src, sid, prop):
    dst = os.path.join(HERE, "seeded", sid)
    os.makedirs(dst, exist_ok=True)
    for f in ("patch.diff", "demo.py", "notes.md"):
        shutil.copy(os.path.join(src, f), os.path.join(dst, f))
    patch, demo = os.path.join(dst, "patch.diff"), os.path.join(dst, "demo.py")
    clean = scratch()
    changed = scratch(patch)
    try:
        rc0, out0 = run_demo(clean, demo)
        rc1, out1 = run_demo(changed, demo)
        green, tail = suite(changed)
    finally:
        shutil.rmtree(clean, ignore_errors=True)
        shutil.rmtree(changed, ignore_errors=True)
    meta = {"id": sid, "property": prop, "origin": "sub-agent given only the property text and a scratch worktree",
            "confirmed": {"patch_applies_to_repo_head": True, "demo_rc_without_change": rc0,
                          "demo_rc_with_change": rc1, "demo_tail_with_change": out1.strip().splitlines()[-1:],
                          "suite_green_with_change": green, "suite": tail},
            "needs_to_manifest": open(os.path.join(dst, "notes.md")).read()[:1500],
            "kept": rc0 == 0 and rc1 != 0 and green}
    json.dump(meta, open(os.path.join(dst, "meta.json"), "w"), indent=1)
    print(json.dumps(meta["confirmed"], indent=1), "kept =", meta["kept"])
    return 0 if meta["kept"] else 1


def run_one(sid, tier, runs):
    dst = os.path.join(HERE, "seeded", sid)
    meta = json.load(open(os.path.join(dst, "meta.json")))
    prop = meta["property"]
    tree = scratch(os.path.join(dst, "patch.diff"))
    try:
        env = dict(os.environ, VERIF_REPO=tree)
        env.pop("VERIF_CHILD", None)
        t0 = time.time()
        extra = (" --runs %d" % runs) if runs else ""
        rc, out = sh("cd %s && ./verif check %s --tier %s%s" % (HERE, prop, tier, extra), env=env)
    finally:
        shutil.rmtree(tree, ignore_errors=True)
    lines = [l for l in out.splitlines() if l.startswith(("violation:", "VIOLATION", "HARNESS", "KNOWN"))]
    return {"id": sid, "property": prop, "tier": tier, "rc": rc, "detected": rc == 1 and any(
        l.startswith("VIOLATION property=" + prop) for l in lines), "seconds": round(time.time() - t0, 1),
        "report": lines[:2]}


def main():
    ap = argparse.ArgumentParser()
    sub = ap.add_subparsers(dest="cmd", required=True)
    i = sub.add_parser("ingest")
    i.add_argument("src")
    i.add_argument("id")
    i.add_argument("prop")
    r = sub.add_parser("run")
    r.add_argument("--only")
    r.add_argument("--tier", default="quick")
    r.add_argument("--jobs", type=int, default=2)
    r.add_argument("--runs", type=int)
    a = ap.parse_args()
    if a.cmd == "ingest":
        return ingest(a.src, a.id, a.prop)
    ids = sorted(d for d in os.listdir(os.path.join(HERE, "seeded"))
                 if os.path.exists(os.path.join(HERE, "seeded", d, "meta.json")))
    if a.only:
        ids = [x for x in ids if x in a.only.split(",")]
    ids = [x for x in ids if json.load(open(os.path.join(HERE, "seeded", x, "meta.json"))).get("kept")]
    with ThreadPoolExecutor(a.jobs) as ex:
        recs = list(ex.map(lambda s: run_one(s, a.tier, a.runs), ids))
    for rec in recs:
        print("%-28s %s %-8s detected=%-5s %5.1fs  %s" % (rec["id"], rec["property"], rec["tier"], rec["detected"],
                                                          rec["seconds"], (rec["report"] or [""])[0][:120]))
    if not a.only:
        json.dump({"results": recs}, open(os.path.join(HERE, "evidence", "seeded.json"), "w"), indent=1)
    return 0 if all(x["detected"] for x in recs) else 1


if __name__ == "__main__":
    sys.exit(main())
