"""Every generated run must replay from its recorded step list to the same digest:
an executed step may depend on the step and on the state built by earlier steps only,
never on what the generator happened to hold.  usage: gen_vs_replay.py world focus n [lo]"""
import os, sys
from concurrent.futures import ProcessPoolExecutor
import multiprocessing as mp
sys.path.insert(0, os.path.dirname(os.path.dirname(os.path.abspath(__file__))))


def one(args):
    world, focus, lo, hi = args
    from sim import kernel
    cls = kernel.get_world(world)
    bad = []
    for i in range(lo, hi):
        seed = kernel.run_seed(world + ":" + focus, 1, i)
        a = kernel.generated_run(cls, focus, seed)
        b = kernel.replay_run(cls, a["cfg"], a["steps"])
        if a["digest"] != b["digest"]:
            k = next((j for j, (x, y) in enumerate(zip(a["outcomes"], b["outcomes"])) if x != y), None)
            bad.append((i, k, a["steps"][k]["op"] if k is not None else None))
    return bad


if __name__ == "__main__":
    world, focus, n = sys.argv[1], sys.argv[2], int(sys.argv[3])
    lo = int(sys.argv[4]) if len(sys.argv) > 4 else 0
    step = max(1, n // 64)
    jobs = [(world, focus, a, min(a + step, lo + n)) for a in range(lo, lo + n, step)]
    bad = []
    with ProcessPoolExecutor(16, mp_context=mp.get_context("fork")) as ex:
        for r in ex.map(one, jobs):
            bad += r
    print(world, focus, "runs", n, "replay differs:", len(bad), bad[:10])
    sys.exit(1 if bad else 0)
