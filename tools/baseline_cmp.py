#!/usr/bin/env python3
"""Compare a junit file with the stable_pass list of /root/.vp/BASELINE.json."""
import json, sys
import xml.etree.ElementTree as ET
base = json.load(open("/root/.vp/BASELINE.json"))
passed = set()
for tc in ET.parse(sys.argv[1]).getroot().iter("testcase"):
    if not any(ch.tag in ("failure", "error", "skipped") for ch in tc):
        passed.add(tc.get("classname") + "::" + tc.get("name"))
missing = sorted(set(base["stable_pass"]) - passed)
print("stable %d, pass %d, missing %d" % (len(base["stable_pass"]), len(passed), len(missing)))
for m in missing[:10]:
    print("  MISSING", m)
sys.exit(1 if missing else 0)
