#!/usr/bin/env python3
"""Line-level reach: inside the functions of the anchored files that generated runs DO enter,
which source lines are never executed (un-taken branches, alternative argument forms).
Diagnostic, not a check.  usage: PYTHONPATH=/repo:/verif python tools/lines.py [runs-per-focus] [file-substring]
"""
import ast
import os
import sys
from concurrent.futures import ProcessPoolExecutor
import multiprocessing as mp

sys.path.insert(0, os.path.dirname(os.path.dirname(os.path.abspath(__file__))))
os.environ.setdefault("MPLBACKEND", "Agg")
from sim import kernel  # noqa: E402
from reach import FOCI, ANCHORS  # noqa: E402


def work(args):
    world, focus, lo, hi = args
    import tracklib
    root = os.path.dirname(os.path.abspath(tracklib.__file__))
    seen = set()
    mon = sys.monitoring
    TOOL = mon.DEBUGGER_ID
    mon.use_tool_id(TOOL, "lines")

    def on_line(code, line):
        fn = code.co_filename
        if fn.startswith(root):
            seen.add((fn[len(root) + 1:], line))
        return mon.DISABLE          # one report per location is enough

    mon.register_callback(TOOL, mon.events.LINE, on_line)
    mon.set_events(TOOL, mon.events.LINE)
    cls = kernel.get_world(world)
    try:
        for i in range(lo, hi):
            kernel.generated_run(cls, focus, kernel.run_seed(world + ":" + focus, 1, i))
    finally:
        mon.set_events(TOOL, 0)
        mon.free_tool_id(TOOL)
    return seen


def main():
    n = int(sys.argv[1]) if len(sys.argv) > 1 else 400
    only = sys.argv[2] if len(sys.argv) > 2 else ""
    import tracklib
    root = os.path.dirname(os.path.abspath(tracklib.__file__))
    jobs = []
    for world, focus in FOCI:
        step = max(1, n // 2)
        jobs += [(world, focus, a, min(a + step, n)) for a in range(0, n, step)]
    seen = set()
    with ProcessPoolExecutor(14, mp_context=mp.get_context("fork")) as ex:
        for s in ex.map(work, jobs):
            seen |= s
    for rel in ANCHORS:
        if only not in rel:
            continue
        src = open(os.path.join(root, rel)).read()
        lines = src.split("\n")
        tree = ast.parse(src)
        hit = {ln for f, ln in seen if f == rel}
        for nd in ast.walk(tree):
            if not isinstance(nd, ast.FunctionDef):
                continue
            body = set()
            for sub in ast.walk(nd):
                if isinstance(sub, ast.stmt) and sub is not nd and not (
                        isinstance(sub, ast.Expr) and isinstance(sub.value, ast.Constant)):
                    body.add(sub.lineno)
            if not body & hit:
                continue            # function never entered: reach.py lists it
            miss = sorted(body - hit)
            if miss:
                print("%s:%s" % (rel, nd.name))
                for ln in miss:
                    print("   %5d  %s" % (ln, lines[ln - 1].strip()[:110]))


if __name__ == "__main__":
    main()
