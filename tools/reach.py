#!/usr/bin/env python3
"""Reach of the simulated worlds inside tracklib: which functions of the files the claimed
properties are anchored in are executed by generated runs, and which never are.

usage: PYTHONPATH=/repo:/verif python tools/reach.py [runs-per-focus]
Writes /verif/evidence/reach.json (diagnostic; not a check).
"""
import ast
import json
import os
import sys

sys.path.insert(0, os.path.dirname(os.path.dirname(os.path.abspath(__file__))))
os.environ.setdefault("MPLBACKEND", "Agg")
from sim import kernel  # noqa: E402

FOCI = [("io", "C13"), ("track", "C01"), ("track", "C04"), ("track", "C17"), ("net", "C06"), ("net", "C07"),
        ("net", "C10")]
ANCHORS = ["core/track.py", "core/obs.py", "core/utils.py", "core/operators.py", "core/network.py",
           "core/obs_time.py", "core/spatial_index.py", "algo/mapping.py", "algo/dynamics.py", "algo/cinematics.py",
           "algo/analytics.py", "util/geometry.py", "io/track_writer.py", "io/track_reader.py", "io/track_format.py",
           "io/network_writer.py", "io/network_reader.py", "io/network_format.py"]


def main():
    n = int(sys.argv[1]) if len(sys.argv) > 1 else 300
    import tracklib
    root = os.path.dirname(os.path.abspath(tracklib.__file__))
    called = set()

    def prof(frame, event, arg):
        if event == "call":
            fn = frame.f_code.co_filename
            if fn.startswith(root):
                called.add((fn[len(root) + 1:], frame.f_code.co_name, frame.f_code.co_firstlineno))

    for world, focus in FOCI:
        cls = kernel.get_world(world)
        sys.setprofile(prof)
        try:
            for i in range(n):
                kernel.generated_run(cls, focus, kernel.run_seed(world + ":" + focus, 1, i))
        finally:
            sys.setprofile(None)
    out = {}
    for rel in ANCHORS:
        tree = ast.parse(open(os.path.join(root, rel)).read())
        defs = [(nd.name, nd.lineno) for nd in ast.walk(tree) if isinstance(nd, (ast.FunctionDef, ast.AsyncFunctionDef))]
        hit = {(nm, ln) for (f, nm, ln) in called if f == rel}
        hit_names = {nm for nm, _ in hit}
        never = sorted(nm for nm, ln in defs if nm not in hit_names)
        out[rel] = {"functions": len(defs), "executed": len([1 for nm, ln in defs if nm in hit_names]), "never": never}
    json.dump({"runs_per_focus": n, "files": out}, open(os.path.join(os.path.dirname(os.path.dirname(
        os.path.abspath(__file__))), "evidence", "reach.json"), "w"), indent=1)
    for rel, v in out.items():
        print("%-26s %3d/%3d  never: %s" % (rel, v["executed"], v["functions"], ", ".join(v["never"])))


if __name__ == "__main__":
    main()
