#!/usr/bin/env python3
"""Run the pinned baseline test command of /repo (no verification hook exists, so
"guard off" is simply the repository as it is) and compare the set of passing
tests with /root/.vp/BASELINE.json.  Exit 0 iff every stable_pass test passes."""
import json, os, subprocess, sys, tempfile
import xml.etree.ElementTree as ET

def main():
    base = json.load(open("/root/.vp/BASELINE.json"))
    with tempfile.TemporaryDirectory() as d:
        out = os.path.join(d, "junit.xml")
        cmd = base["cmd"].replace("<file>", out)
        env = dict(os.environ, MPLBACKEND="Agg")
        env.pop("TRACKLIB_VERIF", None)
        p = subprocess.run(cmd, shell=True, env=env, stdout=subprocess.PIPE, stderr=subprocess.STDOUT, text=True)
        passed = set()
        for tc in ET.parse(out).getroot().iter("testcase"):
            if not any(ch.tag in ("failure", "error", "skipped") for ch in tc):
                passed.add(tc.get("classname") + "::" + tc.get("name"))
    missing = sorted(set(base["stable_pass"]) - passed)
    print("baseline: %d stable tests, %d pass now, %d missing" % (len(base["stable_pass"]), len(passed), len(missing)))
    for m in missing:
        print("  MISSING", m)
    return 1 if missing else 0

if __name__ == "__main__":
    sys.exit(main())
