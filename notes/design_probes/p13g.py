import random, sys, io, contextlib, os
from tracklib.core import Track, Obs, GeoCoords, ObsTime, TrackCollection
from tracklib.io import TrackWriter, TrackReader
store={}; dirs={'/s','/s/d'}
class W(io.StringIO):
    def __init__(s,p): super().__init__(); s.p=p; store[p]=''
    def close(s): store[s.p]=s.getvalue(); super().close()
def sopen(p, mode='r', *a, **k):
    if 'w' in mode: return W(p)
    return io.StringIO(store[p])
class OsShim:
    class path:
        isfile=staticmethod(lambda p: p in store); isdir=staticmethod(lambda p: p.rstrip('/') in dirs); basename=staticmethod(os.path.basename)
    @staticmethod
    def listdir(p): 
        L=[os.path.basename(k) for k in store if os.path.dirname(k)==p.rstrip('/')]; random.Random(len(L)).shuffle(L); return L
for m in ['track_writer','track_reader']:
    mod=sys.modules['tracklib.io.'+m]; mod.open=sopen; mod.os=OsShim
def mk(rnd, tid):
    t=Track([],1,tid)
    for i in range(rnd.choice([1,2,4])):
        t.addObs(Obs(GeoCoords(rnd.choice([-179.99999999,2.123456789,rnd.uniform(-180,180)]), rnd.uniform(-89.9,89.9), rnd.choice([0,-100.5,8848.12345678])),
                     ObsTime(rnd.randint(1970,2099),rnd.randint(1,12),rnd.randint(1,28),rnd.randint(0,23),rnd.randint(0,59),rnd.randint(0,59),rnd.choice([0,999]))))
    if rnd.random()<.5: t.createAnalyticalFeature('a', 1.5)
    return t
def same(t,r):
    if len(t)!=len(r): return 'len %d %d'%(len(t),len(r))
    for a,b in zip(t,r):
        for f in ('getX','getY','getZ'):
            if abs(getattr(a.position,f)()-getattr(b.position,f)())>5.0001e-9: return '%s %r %r'%(f,a.position,b.position)
        ta=a.timestamp; tb=b.timestamp
        if (ta.year,ta.month,ta.day,ta.hour,ta.min,ta.sec)!=(tb.year,tb.month,tb.day,tb.hour,tb.min,tb.sec): return 'time %s %s'%(ta,tb)
    return None
def run(seed):
    rnd=random.Random(seed); store.clear()
    k=rnd.choice([1,1,2,3]); tracks=[mk(rnd,100+i) for i in range(k)]
    coll=TrackCollection(tracks) if k>1 or rnd.random()<.3 else tracks[0]
    one=rnd.random()<.7; af=rnd.random()<.5
    ObsTime.setReadFormat("4Y-2M-2DT2h:2m:2sZ")
    try:
        if one:
            TrackWriter.writeToGpx(coll,'/s/f.gpx',af=af,oneFile=True); R=TrackReader.readFromGpx('/s/f.gpx')
            got=[R[i] for i in range(len(R))]
        else:
            TrackWriter.writeToGpx(coll,'/s/d',af=af,oneFile=False); R=TrackReader.readFromGpx('/s/d')
            got=[R[i] for i in range(len(R))]
    except Exception as ex:
        import traceback; return seed,(k,one,af),'EXC %r'%ex, traceback.format_exc()[-300:]
    finally:
        ObsTime.setReadFormat("2D/2M/4Y 2h:2m:2s")
    if len(got)!=k: return seed,(k,one,af),'ntracks %d'%len(got),list(store)
    if one:
        for t,r in zip(tracks,got):
            e=same(t,r)
            if e: return seed,(k,one,af),e,''
    else:
        for t in tracks:
            if not any(same(t,r) is None for r in got): return seed,(k,one,af),'no match for track',''
    if ObsTime.getPrintFormat()!="2D/2M/4Y 2h:2m:2s": return seed,(k,one,af),'printfmt leaked',''
    return None
bad=0; sink=io.StringIO()
for s in range(int(sys.argv[1])):
    with contextlib.redirect_stdout(sink):
        r=run(s)
    if r:
        bad+=1
        if bad<=6: print(r)
print('bad',bad)
