import random, sys, io, contextlib, math
from tracklib.core import Track, Obs, ENUCoords, ObsTime
from tracklib import computeAbsCurv
def eq(a,b,tol=1e-9):
    if a!=a and b!=b: return True
    if a!=a or b!=b: return False
    return abs(a-b)<=tol*max(1,abs(a),abs(b))
def run(seed):
    rnd=random.Random(seed); n=rnd.choice([2,3,4,8])
    t=Track(); P=[]; T=[]; x=y=0.0; tt=0
    for i in range(n):
        if rnd.random()<.7: x+=rnd.choice([0,1,3.5,-2,1000.25]); y+=rnd.choice([0,2,-1.5,0.001])
        if i and rnd.random()<.75: tt+=rnd.choice([1,2,10,3600])
        P.append((x,y)); T.append(tt)
        t.addObs(Obs(ENUCoords(x,y,rnd.uniform(-5,5)), ObsTime(2020,1,1,0,0,0).addSec(tt)))
    snap=(t.getX(),t.getY(),t.getZ(),t.getT())
    S=[0.0]
    for a,b in zip(P,P[1:]): S.append(S[-1]+math.dist(a,b))
    V=[]
    for i in range(n):
        lo,hi=(0,1) if i==0 else ((n-2,n-1) if i==n-1 else (i-1,i+1))
        dt=T[hi]-T[lo]; V.append(float('nan') if dt==0 else math.dist(P[lo],P[hi])/dt)
    for rep in range(rnd.choice([1,2,3])):
        which=rnd.choice(['abs','speed','del'])
        if which=='abs':
            r=computeAbsCurv(t)
            if any(not eq(a,b) for a,b in zip(r,S)) or len(r)!=n: return seed,'abs %s vs %s'%(r,S)
            if t['abs_curv']!=r: return seed,'stored != returned'
            if 'ds' in t.getListAnalyticalFeatures(): return seed,'ds left'
        elif which=='speed':
            r=t.estimate_speed()
            if any(not eq(a,b) for a,b in zip(r,V)) or len(r)!=n: return seed,'speed %s vs %s (T=%s)'%(r,V,T)
        else:
            for nm in ['abs_curv','speed']:
                if nm in t.getListAnalyticalFeatures() and rnd.random()<.5: t.removeAnalyticalFeature(nm)
        if snap!=(t.getX(),t.getY(),t.getZ(),t.getT()): return seed,'geometry changed'
    return None
bad=0; sink=io.StringIO()
for s in range(int(sys.argv[1])):
    try:
        with contextlib.redirect_stdout(sink): r=run(s)
    except Exception as ex: r=(s,'EXC %r'%ex)
    if r:
        bad+=1
        if bad<=6: print(r)
print('bad',bad)
