import random, sys, io, contextlib
from tracklib.core import Track, Obs, ENUCoords, ObsTime
def T0(s): return ObsTime(2020,3,1,0,s//60,s%60)
def run(seed):
    rnd=random.Random(seed); n=rnd.choice([0,1,2,3,4,7,8,9,16,17])
    t=Track(); M=[]
    for i in range(n):
        s=rnd.randint(0,6); o=Obs(ENUCoords(float(i),0,0), T0(s)); t.addObs(o); M.append((float(i),s))
    feats=rnd.random()<.5 and n>0
    if feats:
        t.createAnalyticalFeature('a',[100.0+i for i in range(n)]); t.createAnalyticalFeature('b',[200.0+i for i in range(n)]); t.removeAnalyticalFeature('a'); t.createAnalyticalFeature('c',[300.0+i for i in range(n)])
    def snap(tr): return [(o.position.getX(), o.timestamp.min*60+o.timestamp.sec, tuple(o.features)) for o in tr]
    def sel(tr): return [o.position.getX() for o in tr]
    before=snap(t)
    op=rnd.choice(['extract','span','mod','modl','gt','lt','add','sort','remove','insert'])
    try:
        if op=='extract' and n:
            i=rnd.randint(0,n-1); j=rnd.randint(i,n-1); r=t.extract(i,j); exp=[m[0] for m in M[i:j+1]]
        elif op=='span' and n:
            a=rnd.randint(-1,7); b=rnd.randint(-1,7); a=max(a,0); b=max(b,0); r=t.extractSpanTime(T0(a),T0(b)); lo,hi=min(a,b),max(a,b); exp=[m[0] for m in M if lo<=m[1]<=hi]
        elif op=='mod' and n:
            k=rnd.randint(1,5); r=t%k; exp=[m[0] for m in M[::k]]
        elif op=='modl' and n:
            pat=[rnd.random()<.5 for _ in range(rnd.randint(1,5))]; r=t%pat; exp=[m[0] for i,m in enumerate(M) if pat[i%len(pat)]]
        elif op=='gt':
            k=rnd.randint(0,n+1); r=t>k; exp=[m[0] for m in M[k:]]
        elif op=='lt':
            k=rnd.randint(0,n); r=t<k; exp=[m[0] for m in M[:n-k]]
        elif op=='add':
            t2=t.copy(); r=t+t2; exp=[m[0] for m in M]*2
        elif op=='sort':
            t.sort(); got=snap(t)
            if sorted(got)!=sorted(before): return seed,op,'multiset changed'
            if any(got[i][1]>got[i+1][1] for i in range(len(got)-1)): return seed,op,'not sorted'
            return None
        elif op=='remove' and n:
            idx=rnd.sample(range(n), rnd.randint(1,n)); cnt=t.removeObsList(list(idx)); got=sel(t); exp=[m[0] for i,m in enumerate(M) if i not in idx]
            if got!=exp or cnt!=len(idx): return seed,op,'%s vs %s cnt=%s'%(got,exp,cnt)
            return None
        elif op=='insert':
            t.sort(); s=rnd.randint(0,7); t.insertObs(Obs(ENUCoords(999.0,0,0),T0(s))); got=snap(t)
            if len(got)!=n+1 or any(got[i][1]>got[i+1][1] for i in range(len(got)-1)): return seed,op,'bad insert %s'%got
            return None
        else: return None
    except Exception as ex:
        return seed,op,'EXC %r n=%d'%(ex,n)
    if sel(r)!=exp: return seed,op,'%s vs %s'%(sel(r),exp)
    if snap(t)!=before: return seed,op,'source modified'
    if feats and op!='span' and sorted(r.getListAnalyticalFeatures())!=['b','c']: return seed,op,'features %s'%r.getListAnalyticalFeatures()
    if feats and len(r)>0:
        if r['b']!=[200.0+x for x in (exp if op!='add' else exp)] : return seed,op,'feat values %s'%r['b']
    return None
bad=0; kinds={}; sink=io.StringIO()
for s in range(int(sys.argv[1])):
    with contextlib.redirect_stdout(sink): r=run(s)
    if r:
        bad+=1; kinds[r[1]]=kinds.get(r[1],0)+1
        if kinds[r[1]]<=3: print(r)
print('bad',bad,kinds)
