import random, sys, io, contextlib, itertools
from tracklib.core import Track, Obs, ENUCoords, Network, Node, Edge
INF=float('inf')
def run(seed):
    rnd=random.Random(seed)
    nn=rnd.randint(1,6); ids=['n%d'%i for i in range(nn)]
    pos={v:(rnd.randint(0,9)+0.0, rnd.randint(0,9)+0.0) for v in ids}
    net=Network(); E=[]
    hist=[]
    def fw():
        d={(a,b):(0 if a==b else INF) for a in ids for b in ids}
        for (eid,s,t,o,w,pts) in E:
            if o>=0: d[(s,t)]=min(d[(s,t)],w)
            if o<=0: d[(t,s)]=min(d[(t,s)],w)
        for k in ids:
            for a in ids:
                for b in ids:
                    if d[(a,k)]+d[(k,b)]<d[(a,b)]: d[(a,b)]=d[(a,k)]+d[(k,b)]
        return d
    for step in range(rnd.randint(2,25)):
        k=rnd.random()
        if k<0.4 or not E:
            s=rnd.choice(ids); t=rnd.choice(ids); o=rnd.choice([0,0,1,-1]); w=rnd.choice([0,0,0.5,1,1,2,3,4])
            mids=[(rnd.randint(0,9)+0.25, rnd.randint(0,9)+0.75) for _ in range(rnd.choice([0,0,1,2]))]
            pts=[pos[s]]+mids+[pos[t]]
            e=Edge('e%d'%len(E), Track([Obs(ENUCoords(x,y,0)) for x,y in pts])); e.weight=w; e.orientation=o
            net.addEdge(e, Node(s,ENUCoords(*pos[s],0)), Node(t,ENUCoords(*pos[t],0)))
            E.append(('e%d'%(len(E)),s,t,o,w,pts)); hist.append(('add',s,t,o,w,len(pts)))
            continue
        present=[v for v in ids if net.hasNode(v)]
        d=fw()
        s=rnd.choice(present); t=rnd.choice(present)
        if k<0.6:
            hist.append(('dist',s,t)); got=net.shortest_distance(s,t); exp=d[(s,t)]
            if (exp==INF and got!=-1) or (exp!=INF and got!=exp): return seed,'dist %s->%s got %s exp %s'%(s,t,got,exp),hist
        elif k<0.7:
            cut=rnd.choice([0,0.5,1,2,3,5,1e300]); hist.append(('all',cut)); got=net.all_shortest_distances(cut=cut)
            exp={(a,b):d[(a,b)] for a in present for b in present if d[(a,b)]<=cut}
            if got!=exp: 
                diff={k:(got.get(k),exp.get(k)) for k in set(got)|set(exp) if got.get(k)!=exp.get(k)}
                return seed,'all cut=%s diff %s'%(cut,diff),hist
        elif k<0.8:
            hist.append(('dist1n',s)); got=net.shortest_distance(s,None)
            exp=[ (1e300-1 if d[(s,b)]==INF else d[(s,b)]) for b in net.getNodesId()]
            exp2=[ (d[(s,b)]) for b in net.getNodesId()]
            for g,x in zip(got,exp2):
                if x==INF:
                    if g<1e299: return seed,'dist1n unreachable %s'%got,hist
                elif g!=x: return seed,'dist1n %s vs %s'%(got,exp2),hist
        else:
            if s==t: continue
            hist.append(('path',s,t)); p=net.shortest_path(s,t)
            if d[(s,t)]==INF:
                if p is not None: return seed,'path for unreachable',hist
                continue
            if p is None: return seed,'no path %s->%s d=%s'%(s,t,d[(s,t)]),hist
            path=p.path
            if path[0]!=s or path[-1]!=t: return seed,'path ends %s for %s->%s'%(path,s,t),hist
            # DP over parallel edges: weight + geometry
            coords=list(zip(p.getX(),p.getY()))
            states={(0.0, (pos[s],))}
            for u,v in zip(path,path[1:]):
                new=set()
                for (eid,a,b,o,w,pts) in E:
                    g=None
                    if a==u and b==v and o>=0: g=pts
                    if b==u and a==v and o<=0: g=pts[::-1] if g is None else g
                    cands=[]
                    if a==u and b==v and o>=0: cands.append(pts)
                    if b==u and a==v and o<=0: cands.append(pts[::-1])
                    for g in cands:
                        for (tw,geo) in states:
                            new.add((tw+w, geo+tuple(g[1:])))
                states=new
                if not states: return seed,'no edge %s->%s in path %s'%(u,v,path),hist
            ok=[1 for (tw,geo) in states if tw==d[(s,t)] and list(geo)==coords]
            if not ok: 
                okw=[1 for (tw,geo) in states if tw==d[(s,t)]]
                return seed,'path %s bad (%s) coords=%s'%(path,'geometry' if okw else 'weight', coords),hist
    return None
bad=0; kinds={}
sink=io.StringIO()
for s in range(int(sys.argv[1])):
    try:
        with contextlib.redirect_stdout(sink):
            r=run(s)
    except Exception as ex:
        r=(s,'EXC %r'%ex,[])
    if r:
        bad+=1; key=r[1].split()[0]+' '+(r[1].split('(')[1].split(')')[0] if '(' in r[1] and r[1].startswith('path') else '')
        kinds[key]=kinds.get(key,0)+1
        if kinds[key]<=3: print(r[0], r[1]); print('   ', r[2][-3:])
print('bad',bad,kinds)
