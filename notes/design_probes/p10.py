import random, sys, io, contextlib, math
from tracklib.core import Track, Obs, ENUCoords, ObsTime, Network, Node, Edge, SpatialIndex
from tracklib import computeAbsCurv, mapOnNetwork
def plen(pts): return sum(math.dist(a,b) for a,b in zip(pts,pts[1:]))
def dist_pt_seg(p,a,b):
    ax,ay=a;bx,by=b;px,py=p; dx=bx-ax; dy=by-ay; L=dx*dx+dy*dy
    if L==0: return math.dist(p,a),0.0
    u=max(0,min(1,((px-ax)*dx+(py-ay)*dy)/L)); q=(ax+u*dx,ay+u*dy); return math.dist(p,q),u
def on_poly(p,pts):
    best=(1e99,None,None)
    acc=0
    for i,(a,b) in enumerate(zip(pts,pts[1:])):
        d,u=dist_pt_seg(p,a,b)
        if d<best[0]: best=(d,acc+u*math.dist(a,b),i)
        acc+=math.dist(a,b)
    return best
def run(seed):
    rnd=random.Random(seed)
    g=rnd.choice([2,3,4]); step=rnd.choice([10.0,25.0,7.5])
    nodes={}
    for i in range(g):
        for j in range(g):
            nodes[(i,j)]=(i*step+rnd.uniform(-1,1)*(rnd.random()<.5), j*step+rnd.uniform(-1,1)*(rnd.random()<.5))
    net=Network(); E=[]
    def add(a,b):
        pa=nodes[a]; pb=nodes[b]; mids=[]
        for m in range(rnd.choice([0,0,1,2])):
            f=(m+1)/3; mids.append((pa[0]+(pb[0]-pa[0])*f+rnd.uniform(-2,2), pa[1]+(pb[1]-pa[1])*f+rnd.uniform(-2,2)))
        pts=[pa]+mids+[pb]
        tr=Track([Obs(ENUCoords(x,y,0)) for x,y in pts]); computeAbsCurv(tr)
        e=Edge('e%d'%len(E),tr); e.weight=tr.length(); e.orientation=rnd.choice([0,0,0,1,-1])
        net.addEdge(e, Node('n%d_%d'%a, ENUCoords(*pa,0)), Node('n%d_%d'%b, ENUCoords(*pb,0))); E.append(pts)
    for i in range(g):
        for j in range(g):
            if i+1<g and rnd.random()<.85: add((i,j),(i+1,j))
            if j+1<g and rnd.random()<.85: add((i,j),(i,j+1))
    if not E: return None
    res=rnd.choice([None,(step/3,step/3),(step,step/2),(step*0.7,step*1.9)])
    xs=[p[0] for pts in E for p in pts]; ys=[p[1] for pts in E for p in pts]
    ax=max(xs)-min(xs); ay=max(ys)-min(ys)
    if ax<=1e-9 or ay<=1e-9: return None
    if res is not None and (res[0]>ax or res[1]>ay): res=(min(res[0],ax/1.5),min(res[1],ay/1.5))
    net.spatial_index=SpatialIndex(net, resolution=res, margin=rnd.choice([0.05,0.2,0.5]), verbose=False)
    net.prepare(verbose=False)
    for rep in range(rnd.choice([1,2,3])):
        n=rnd.choice([1,2,5,9]); tr=Track()
        x=rnd.uniform(0,(g-1)*step); y=rnd.uniform(0,(g-1)*step)
        for k in range(n):
            mode=rnd.random()
            if mode<.3:
                pts=rnd.choice(E); a,b=rnd.choice(list(zip(pts,pts[1:]))); u=rnd.random(); x,y=a[0]+u*(b[0]-a[0]), a[1]+u*(b[1]-a[1])
            elif mode<.8: x+=rnd.uniform(-step/2,step/2); y+=rnd.uniform(-step/2,step/2)
            else: x+=rnd.uniform(-3*step,3*step); y+=rnd.uniform(-3*step,3*step)
            tr.addObs(Obs(ENUCoords(x,y,0), ObsTime(2020,1,1,0,0,k)))
        snap=[(o.position.getX(),o.position.getY(),o.position.getZ(),o.timestamp.toAbsTime()) for o in tr]
        radius=rnd.choice([1.0,5.0,step/2,step,3*step]); noise=rnd.choice([1,10,50])
        cfg=(g,step,len(E),res,n,radius)
        try:
            mapOnNetwork(tr, net, gps_noise=noise, search_radius=radius)
        except Exception as ex:
            import traceback; return seed,cfg,'EXC %r'%ex, traceback.format_exc().splitlines()[-3]
        if snap!=[(o.position.getX(),o.position.getY(),o.position.getZ(),o.timestamp.toAbsTime()) for o in tr]: return seed,cfg,'track changed',''
        for k in range(n):
            s=tr['hmm_inference',k]
            if s[1]==-1: continue
            p=(s[0].getX(),s[0].getY()); pts=E[s[1]]
            d,arc,i=on_poly(p,pts)
            if d>1e-6: return seed,cfg,'not on edge d=%g'%d,''
            do=math.dist(p,(snap[k][0],snap[k][1]))
            if do>radius+1e-9: return seed,cfg,'radius %g>%g'%(do,radius),''
            L=plen(pts)
            if abs(s[2]+s[3]-L)>1e-6*max(1,L): return seed,cfg,'sum %g+%g != %g'%(s[2],s[3],L),''
            if abs(s[2]-arc)>1e-6*max(1,L): return seed,cfg,'ds %g vs arc %g'%(s[2],arc),''
    return None
bad=0; kinds={}; sink=io.StringIO(); matched=0
for s in range(int(sys.argv[1])):
    with contextlib.redirect_stdout(sink):
        r=run(s)
    if r:
        bad+=1; key=r[2].split()[0]; kinds[key]=kinds.get(key,0)+1
        if kinds[key]<=3: print(r)
print('bad',bad,kinds)
