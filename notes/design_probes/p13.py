import random, sys, io, contextlib, itertools, os
from tracklib.core import Track, Obs, ENUCoords, GeoCoords, ECEFCoords, ObsTime
from tracklib.io import TrackWriter, TrackReader, TrackFormat
store={}
class W(io.StringIO):
    def __init__(s,p): super().__init__(); s.p=p; store[p]=''
    def close(s): store[s.p]=s.getvalue(); super().close()
def sopen(p, mode='r', *a, **k):
    if 'w' in mode: return W(p)
    return io.StringIO(store[p])
class OsShim:
    class path:
        isfile=staticmethod(lambda p: p in store); isdir=staticmethod(lambda p: False); basename=staticmethod(os.path.basename)
for m in ['track_writer','track_reader']:
    mod=sys.modules['tracklib.io.'+m]; mod.open=sopen
sys.modules['tracklib.io.track_reader'].os=OsShim
SPECIAL=[(2020,2,29,23,59,59),(2019,12,31,23,59,59),(2020,1,1,0,0,0),(1970,1,1,0,0,0),(2099,12,31,0,0,0),(2001,2,28,12,0,1),(2024,3,31,0,0,59)]
def rcoord(rnd,kind):
    if kind=='ENU': return ENUCoords(rnd.choice([0,-0.0004,123456.7894,-987654.3216,rnd.uniform(-1e6,1e6)]), rnd.uniform(-1e5,1e5), rnd.choice([0,-12.3456,8848.0005]))
    if kind=='GEO': return GeoCoords(rnd.choice([-179.99999999999,179.123456789012,0.0,rnd.uniform(-180,180)]), rnd.uniform(-89.9,89.9), rnd.choice([0,-100.5,9999.123456]))
    return ECEFCoords(rnd.uniform(-6.4e6,6.4e6), rnd.uniform(-6.4e6,6.4e6), rnd.uniform(-6.4e6,6.4e6))
def run(seed):
    rnd=random.Random(seed); kind=rnd.choice(['ENU','GEO','ECEF']); n=rnd.choice([1,2,5])
    t=Track()
    for i in range(n):
        f=rnd.choice(SPECIAL) if rnd.random()<.6 else (rnd.randint(1970,2099),rnd.randint(1,12),rnd.randint(1,28),rnd.randint(0,23),rnd.randint(0,59),rnd.randint(0,59))
        t.addObs(Obs(rcoord(rnd,kind), ObsTime(*f, rnd.choice([0,0,500,999]))))
    useU=rnd.random()<.7; useT=rnd.random()<.8
    k=2+useU+useT; perm=list(range(k)); rnd.shuffle(perm)
    idE,idN=perm[0],perm[1]; idU=perm[2] if useU else -1; idT=perm[2+useU] if useT else -1
    sep=rnd.choice([',',';']) if useT else rnd.choice([',',';',' '])
    cfg=(kind,n,idE,idN,idU,idT,sep)
    try:
        TrackWriter.writeToFile(t,'/s/f.csv',idE,idN,idU,idT,sep)
        r=TrackReader.readFromCsv('/s/f.csv',idE,idN,idU,idT,separator=sep,srid=kind)
    except Exception as ex:
        return seed,cfg,'EXC %r'%ex, store.get('/s/f.csv','')[:200]
    if len(r)!=n: return seed,cfg,'len %d'%len(r), store['/s/f.csv'][:200]
    tol={'ENU':5.0001e-4,'ECEF':5.0001e-4,'GEO':5.0001e-11}[kind]
    for a,b in zip(t,r):
        if type(a.position)!=type(b.position): return seed,cfg,'type',''
        if abs(a.position.getX()-b.position.getX())>tol*max(1,1) or abs(a.position.getY()-b.position.getY())>tol: return seed,cfg,'xy %s vs %s'%(a.position,b.position),''
        if useU and abs(a.position.getZ()-b.position.getZ())>tol: return seed,cfg,'z %s %s'%(a.position.getZ(),b.position.getZ()),''
        if useT:
            fa=(a.timestamp.year,a.timestamp.month,a.timestamp.day,a.timestamp.hour,a.timestamp.min,a.timestamp.sec)
            fb=(b.timestamp.year,b.timestamp.month,b.timestamp.day,b.timestamp.hour,b.timestamp.min,b.timestamp.sec)
            if fa!=fb: return seed,cfg,'t %s vs %s'%(fa,fb),store['/s/f.csv'][:200]
    return None
bad=0; sink=io.StringIO()
for s in range(int(sys.argv[1])):
    with contextlib.redirect_stdout(sink):
        r=run(s)
    if r:
        bad+=1
        if bad<=8: print(r)
print('bad',bad)
