# throw-away probe: random feature histories vs dict model
import random, math, sys, io, contextlib
from tracklib.core import Track, Obs, ENUCoords, ObsTime, Operator
from tracklib.util.exceptions import AnalyticalFeatureError
NAMES='abcd'
def eq(a,b):
    if isinstance(a,float) and isinstance(b,float) and a!=a and b!=b: return True
    return a==b
def run(seed):
    rnd=random.Random(seed); n=rnd.choice([1,2,3,5,8])
    t=Track(); X=[]; 
    for i in range(n):
        t.addObs(Obs(ENUCoords(100+i,200+i,300+i), ObsTime(2020,1,1,0,0,i)))
    mx=[100.0+i for i in range(n)]
    order=[]; col={}; ctr=[0]
    def fresh(): 
        ctr[0]+=1; return float(ctr[0])+0.5
    log=[]
    def check(where):
        if t.getListAnalyticalFeatures()!=order: return 'list %s vs %s'%(t.getListAnalyticalFeatures(),order)
        for o in t:
            if len(o.features)!=len(order): return 'width %d vs %d'%(len(o.features),len(order))
        for nm in order:
            got=t[nm]
            if len(got)!=n or any(not eq(g,m) for g,m in zip(got,col[nm])): return 'col %s %s vs %s'%(nm,got,col[nm])
        if t.getX()!=mx: return 'x %s vs %s'%(t.getX(), mx)
        return None
    for step in range(rnd.randint(3,40)):
        k=rnd.random(); nm=rnd.choice(NAMES); 
        try:
            if k<0.2:
                v=[fresh() for _ in range(n)] if rnd.random()<.5 else fresh()
                log.append(('create',nm,v)); t.createAnalyticalFeature(nm,v)
                if nm not in col: order.append(nm); col[nm]=list(v) if isinstance(v,list) else [v]*n
            elif k<0.35:
                log.append(('delete',nm))
                if nm in col:
                    t.removeAnalyticalFeature(nm); order.remove(nm); del col[nm]
                else:
                    try: t.removeAnalyticalFeature(nm); return (seed,'no reject',log)
                    except AnalyticalFeatureError: pass
            elif k<0.5:
                v=[fresh() for _ in range(n)] if rnd.random()<.5 else fresh()
                log.append(('setitem',nm,v)); t[nm]=v
                if nm not in col: order.append(nm)
                col[nm]=list(v) if isinstance(v,list) else [v]*n
            elif k<0.65 and order:
                a=rnd.choice(order); b=rnd.choice(order); out=rnd.choice(NAMES)
                log.append(('ADDER',a,b,out)); t.operate(Operator.ADDER,a,b,out)
                res=[x+y for x,y in zip(col[a],col[b])]
                if out not in col: order.append(out)
                col[out]=res
            elif k<0.85 and order:
                a=rnd.choice(order); b=rnd.choice(order); out=rnd.choice(NAMES); lit=rnd.choice([2,3,0.5])
                form=rnd.choice(['%s=%s+%s','%s=(%s+%s)*L','%s=L-%s','noeq','%s+=L','x=x+L'])
                if form=='%s=%s+%s': e=form%(out,a,b); res=[x+y for x,y in zip(col[a],col[b])]
                elif form=='%s=(%s+%s)*L': e=('%s=(%s+%s)*'+str(lit))%(out,a,b); res=[(x+y)*lit for x,y in zip(col[a],col[b])]
                elif form=='%s=L-%s': e='%s=%s-%s'%(out,lit,a); res=[lit-x for x in col[a]]
                elif form=='%s+=L': out=a; e='%s+=%s'%(a,lit); res=[x+lit for x in col[a]]
                elif form=='x=x+L': e='x=x+%s'%lit; res=None
                else: e='(%s+%s)*%s'%(a,b,lit); res=None
                log.append(('expr',e))
                r=t.operate(e)
                if form=='noeq':
                    exp=[(x+y)*lit for x,y in zip(col[a],col[b])]
                    if r!=exp: return (seed,'noeq value %s vs %s'%(r,exp),log)
                elif form=='x=x+L':
                    mx=[x+lit for x in mx]
                else:
                    if out in col: order.remove(out)   # overwrite-by-expression moves column to the end?
                    order.append(out); col[out]=res
            else:
                continue
        except BaseException as ex:
            return (seed,'raised %r'%ex,log)
        c=check(step)
        if c: return (seed,c,log)
    return None
bad=0
sink=io.StringIO()
for s in range(int(sys.argv[1])):
    with contextlib.redirect_stdout(sink):
        r=run(s)
    if r:
        bad+=1
        if bad<=6: print(r[0], r[1]); print('   ', r[2][-4:])
print('bad',bad)
