"""Command line of the verification machinery (entry point: /verif/verif).

  verif check <ID> --tier quick|thorough     run the check of one property
  verif replay <file>                         re-execute a replay file
  verif selftest determinism [--seeds N]      digests agree across repetitions,
                                              interpreters, hash seeds, worker counts
  verif one <world> <focus> <index>           print one generated run (debugging)

Exit status: 0 property held on everything explored; 1 violation (a line
`VIOLATION property=<id> replay=<path>` is printed); 2 harness error
(`HARNESS-ERROR`, never a violation).
"""
import argparse
import json
import os
import subprocess
import sys
import time
import traceback

VERIF_DIR = os.path.dirname(os.path.dirname(os.path.abspath(__file__)))


def _jd(o):
    from . import kernel
    return kernel._default(o)

PY = "/venv/bin/python"

QUICK_RUNS = {"C13": 40000, "C01": 20000, "C04": 20000, "C17": 20000, "C06": 15000, "C07": 15000, "C10": 12000}
THOROUGH_WALL = {"C13": 600, "C01": 600, "C04": 600, "C17": 420, "C06": 600, "C07": 600, "C10": 780}


def _reexec():
    """One fixed interpreter environment: hash seed 0, the repository's working
    tree first on the path, no byte-code written into it."""
    if os.environ.get("VERIF_CHILD") == "1":
        return
    env = dict(os.environ)
    env["VERIF_CHILD"] = "1"
    env.setdefault("PYTHONHASHSEED", "0")
    repo = env.get("VERIF_REPO", "/repo")
    env["PYTHONPATH"] = repo + os.pathsep + VERIF_DIR
    env["MPLBACKEND"] = "Agg"
    env["PYTHONDONTWRITEBYTECODE"] = "1"
    os.execve(PY, [PY, "-W", "ignore", os.path.join(VERIF_DIR, "verif")] + sys.argv[1:], env)


def _child(args, hashseed=None, timeout=600):
    env = dict(os.environ)
    if hashseed is not None:
        env["PYTHONHASHSEED"] = str(hashseed)
    p = subprocess.run([PY, "-W", "ignore", os.path.join(VERIF_DIR, "verif")] + args, env=env,
                       stdout=subprocess.PIPE, stderr=subprocess.PIPE, text=True, timeout=timeout)
    return p


# ------------------------------------------------------------------ known findings
def load_known():
    path = os.path.join(VERIF_DIR, "known_findings.json")
    if not os.path.exists(path):
        return {"findings": [], "fixed": []}
    return json.load(open(path))


def match_known(violation, known):
    from . import kernel
    return kernel.match_known(violation, known)


# ------------------------------------------------------------------------ replay
def write_replay(prop, world, seed, cfg, steps, res, violation, prelude=None):
    from . import kernel
    d = os.path.join(VERIF_DIR, "replays")
    os.makedirs(d, exist_ok=True)
    body = {"property": prop, "oracle": violation["oracle"], "world": world, "run_seed": seed, "config": cfg,
            "prelude": prelude or [],
            "steps": steps, "first_bad_step": violation["step"], "message": violation["message"],
            "expected": violation["expected"], "observed": violation["observed"],
            "detail": violation.get("detail"), "log_digest": res["digest"], "tree": kernel.tree_info()}
    name = "%s-%s.json" % (prop, kernel.short_digest([steps, violation["oracle"]])[:12])
    path = os.path.join(d, name)
    with open(path, "w") as f:
        f.write(dump_replay(body))
    return path


def dump_replay(body):
    """Readable replay file: one key per line, one step per line."""
    lines = []
    for k, v in body.items():
        if k == "steps":
            inner = ",\n  ".join(json.dumps(s, default=_jd) for s in v)
            lines.append(' "steps": [\n  %s\n ]' % inner)
        elif k == "prelude":
            inner = ",\n  ".join(json.dumps(s, default=_jd) for s in v)
            lines.append(' "prelude": [\n  %s\n ]' % inner if v else ' "prelude": []')
        else:
            lines.append(" %s: %s" % (json.dumps(k), json.dumps(v, default=_jd)))
    return "{\n" + ",\n".join(lines) + "\n}\n"


def cmd_replay(path, quiet=False):
    from . import kernel
    body = json.load(open(path))
    cls = kernel.get_world(body["world"])
    for p in body.get("prelude") or []:
        # earlier runs of the same process: only the process state they leave behind matters
        try:
            kernel.replay_run(cls, p["config"], p["steps"])
        except Exception:  # noqa: BLE001
            pass
    res = kernel.replay_run(cls, body["config"], body["steps"])
    same = [v for v in res["violations"] if v["property"] == body["property"] and v["oracle"] == body["oracle"]]
    out = {"digest": res["digest"], "expected_digest": body.get("log_digest"), "reproduced": bool(same),
           "violations": res["violations"], "outcomes": res["outcomes"]}
    if not quiet:
        print(json.dumps(out, indent=1, default=_jd))
    if same:
        print("VIOLATION property=%s replay=%s" % (body["property"], path))
        return 1
    return 0


# ------------------------------------------------------------------ determinism
def determinism_sample(world, focus, n, batch_seed):
    """Each seed twice in this process, once in a fresh interpreter under another
    PYTHONHASHSEED; all digests must agree."""
    from . import kernel
    cls = kernel.get_world(world)
    idx = list(range(10 ** 6, 10 ** 6 + n))
    a = [kernel.generated_run(cls, focus, kernel.run_seed(world + ":" + focus, batch_seed, i))["digest"] for i in idx]
    b = [kernel.generated_run(cls, focus, kernel.run_seed(world + ":" + focus, batch_seed, i))["digest"] for i in idx]
    p = _child(["digests", world, focus, str(batch_seed), str(idx[0]), str(n)], hashseed=4242)
    if p.returncode != 0:
        raise RuntimeError("digest child failed: " + p.stderr[-2000:])
    c = json.loads(p.stdout.strip().splitlines()[-1])
    bad = [i for i, (x, y, z) in zip(idx, zip(a, b, c)) if not (x == y == z)]
    return {"seeds": n, "repeats": 3, "fresh_interpreter_hashseed": 4242, "mismatches": bad}


def cmd_digests(world, focus, batch_seed, lo, n):
    from . import kernel
    cls = kernel.get_world(world)
    print(json.dumps([kernel.generated_run(cls, focus, kernel.run_seed(world + ":" + focus, batch_seed, i))["digest"]
                      for i in range(lo, lo + n)]))
    return 0


def cmd_selftest_determinism(nseeds):
    from . import kernel, batch
    ok = True
    for world, focus in (("io", "C13"), ("track", "C01"), ("track", "C04"), ("track", "C17"),
                         ("net", "C06"), ("net", "C07"), ("net", "C10")):
        d = determinism_sample(world, focus, nseeds, 7)
        a = batch.run_batch(world, focus, 7, n_runs=nseeds, workers=1, stop_on_violation=False)
        b = batch.run_batch(world, focus, 7, n_runs=nseeds, workers=16, stop_on_violation=False)
        same = a["digests"] == b["digests"] and a["stats"] == b["stats"]
        print("determinism world=%s focus=%s seeds=%d mismatches=%d workers1==workers16:%s"
              % (world, focus, nseeds, len(d["mismatches"]), same))
        ok = ok and not d["mismatches"] and same
    return 0 if ok else 2


# ------------------------------------------------------------------------- check
def cmd_check(prop, tier, runs=None, wall=None):
    from . import kernel, batch, minimise, pristine
    t0 = time.time()
    world = kernel.PROPERTY_WORLD[prop]
    cls = kernel.get_world(world)
    # forked before this process executes any tracklib code: every corpus replay, every
    # minimisation test and every confirmation starts from import-time process state
    clean = pristine.Pristine()
    runner = lambda cfg, steps, prelude=None: clean.run(world, cfg, steps, prelude)  # noqa: E731
    batch_seed = int(os.environ.get("VERIF_SEED", "1"))
    known = load_known()
    exit_code = 0
    known_hit = {}
    new_violation = None          # (seed, cfg, steps, violation)
    foreign = []

    # 1. committed regression corpus, replayed first
    corpus_dir = os.path.join(VERIF_DIR, "corpus", prop)
    corpus_n = 0
    if os.path.isdir(corpus_dir):
        for name in sorted(os.listdir(corpus_dir)):
            if not name.endswith(".json"):
                continue
            body = json.load(open(os.path.join(corpus_dir, name)))
            corpus_n += 1
            res = runner(body["config"], body["steps"], body.get("prelude") or None)
            if not res.get("ok"):
                print("HARNESS-ERROR: corpus file %s cannot be executed:\n%s" % (name, res.get("error")))
                return 2
            for k in (res.get("stats") or {}):
                if k.startswith("known_finding:"):
                    for f in known.get("findings", []):
                        if f["id"] == k[len("known_finding:"):] and f["property"] == prop:
                            known_hit[f["id"]] = f
            for v in res["violations"]:
                if v["property"] != prop:
                    continue
                f = match_known(v, known)
                if f:
                    known_hit[f["id"]] = f
                elif new_violation is None:
                    new_violation = (0, body["config"], res["steps"], v, "corpus:" + name,
                                     body.get("prelude") or None)

    # 2. seeded batch
    def is_known(vrec):
        return all(match_known(x, known) for x in vrec["violations"] if x["property"] == prop)

    if tier == "thorough":
        os.environ["VERIF_DEEP"] = "1"         # inherited by the forked workers and the determinism child
    if tier == "quick":
        n_runs = runs or int(os.environ.get("VERIF_RUNS", QUICK_RUNS[prop]))
        agg = batch.run_batch(world, prop, batch_seed, n_runs=n_runs, is_known=is_known)
    else:
        wall_s = wall or int(os.environ.get("VERIF_WALL", THOROUGH_WALL[prop]))
        agg = batch.run_batch(world, prop, batch_seed, n_runs=runs, wall_s=wall_s, is_known=is_known)

    for vrec in agg["violations"]:
        for v in vrec["violations"]:
            if v["property"] != prop:
                if len(foreign) < 5:
                    foreign.append("foreign property=%s oracle=%s run_index=%d: %s"
                                   % (v["property"], v["oracle"], vrec["index"], v["message"]))
                continue
            f = match_known(v, known)
            if f:
                known_hit[f["id"]] = f
            elif new_violation is None:
                new_violation = (vrec["seed"], vrec["cfg"], vrec["steps"], v, "run_index:%d" % vrec["index"],
                                 vrec.get("prefix") or None)

    for k in agg["stats"]:
        if k.startswith("known_finding:"):
            for f in known.get("findings", []):
                if f["id"] == k[len("known_finding:"):] and f["property"] == prop:
                    known_hit[f["id"]] = f
    for line in foreign:
        print("note: " + line)
    for n in agg["notes"][:5]:
        print("note: " + n)
    # every listed finding of this property is announced (met in this batch or not: some need the thorough tier)
    for f in known.get("findings", []):
        if f["property"] == prop:
            known_hit.setdefault(f["id"], f)
    for fid, f in sorted(known_hit.items()):
        print("KNOWN-FINDING: property=%s %s" % (prop, f["what"]))

    replay_path = None
    if new_violation is not None:
        seed, cfg, steps, v, origin, prefix = new_violation
        if v["oracle"] == "step.hang":      # candidates that still hang cost wall time: shorter limit while shrinking
            runner = lambda cfg, steps, prelude=None: clean.run(world, cfg, steps, prelude, step_limit=2)  # noqa: E731
        msteps, mres, mprelude = minimise.minimise(cls, cfg, steps, v, runner, prefix)
        if mres is None:
            print("HARNESS-ERROR: violation (%s, %s) from %s does not reproduce from its step list, with or "
                  "without the %d earlier runs of its process" % (prop, v["oracle"], origin, len(prefix or [])))
            return 2
        mv = [x for x in mres["violations"] if (x["property"], x["oracle"]) == (prop, v["oracle"])][0]
        if mprelude:
            print("note: the failure depends on process state left by %d earlier run(s) of the same process; "
                  "they are part of the replay file (prelude)" % len(mprelude))
        replay_path = write_replay(prop, world, seed, cfg, msteps, mres, mv, mprelude)
        p = _child(["replay", replay_path, "--quiet"])
        if p.returncode != 1:
            print("HARNESS-ERROR: minimised replay %s does not fail in a fresh interpreter (rc=%d)\n%s"
                  % (replay_path, p.returncode, p.stderr[-1500:]))
            return 2
        print("violation: %s %s at step %d of %d (minimised from %d, %s): %s; expected=%r observed=%r"
              % (prop, mv["oracle"], mv["step"], len(msteps), len(steps), origin, mv["message"],
                 mv["expected"], mv["observed"]))
        print("VIOLATION property=%s replay=%s" % (prop, replay_path))
        exit_code = 1

    clean.close()

    # 3. determinism sample (quick: 20 seeds; thorough: 100)
    det = determinism_sample(world, prop, 20 if tier == "quick" else 100, batch_seed)
    if det["mismatches"]:
        if exit_code == 1:
            print("note: digests of repeated runs differ on this tree (run indices %s): the library under test "
                  "carries state from one run to the next" % det["mismatches"][:5])
        else:
            print("HARNESS-ERROR: digests differ between repetitions for run indices %s" % det["mismatches"][:5])
            return 2

    # 4. evidence
    write_evidence(prop, tier, batch_seed, world, cls, agg, corpus_n, known_hit, det,
                   1 if new_violation is not None else 0, time.time() - t0)
    st = agg["stats"]
    print("%s %s: %d runs, %d steps, %d distinct non-trivial, %.0f runs/h, wall %.1fs, violations=%d"
          % (prop, tier, agg["runs"], st["steps"], len(agg["digests"]),
             agg["runs"] / max(agg["wall_s"], 1e-9) * 3600, time.time() - t0,
             1 if new_violation is not None else 0))
    return exit_code


def write_evidence(prop, tier, batch_seed, world, cls, agg, corpus_n, known_hit, det, nviol, wall):
    st = agg["stats"]
    pick = lambda pre: {k[len(pre):]: v for k, v in sorted(st.items()) if k.startswith(pre)}  # noqa: E731
    fals = list(cls.FALSIFIERS.get(prop, ()))
    cov = {
        "evaluations": agg["runs"] + corpus_n,
        "distinct_nontrivial": len(agg["digests"]),
        "rule": ("One evaluation = one simulated run (seed -> swarm configuration -> sequence of steps, each "
                 "one public API call of one simulated session against the real tracklib, model and oracles "
                 "evaluated after every step).  A run is non-trivial when it executed at least 3 steps whose "
                 "precondition held and at least one step of a kind able to falsify %s (%s); runs are "
                 "distinct when the sha256 of their complete event log (steps, arguments, faults, outcomes, "
                 "result digests) differs." % (prop, ", ".join(fals))),
        "samples": agg["samples"][:2],
        "runs_per_hour": int(agg["runs"] / max(agg["wall_s"], 1e-9) * 3600),
        "seeds_per_hour": int(agg["runs"] / max(agg["wall_s"], 1e-9) * 3600),
        "seeds": "run i uses sha256('%s:%s|VERIF_SEED|i')[:8]; VERIF_SEED=%d, i in [0, %d)" % (
            world, prop, batch_seed, agg["runs"]),
        "simulated_time_note": ("seconds of SimClock time advanced by the steps (io world)" if world == "io" else
                                "this world has no clock on its code paths: simulated time is not applicable, "
                                "progress is counted in steps"),
        "abstract_state_measure": getattr(cls, "STATE_MEASURE", "tuple summarising the reference model after a step"),
        "nontrivial_runs": agg["nontrivial"],
        "corpus_replayed": corpus_n,
        "steps": st["steps"],
        "simulated_seconds": agg["sim_seconds"],
        "ops": pick("op:"),
        "outcomes": pick("outcome:"),
        "faults_armed": pick("fault_armed:"),
        "faults_fired": pick("fault_fired:"),
        "faults_armed_not_reached": pick("fault_not_reached:"),
        "probes": pick("probe:"),
        "abstract_states": len(agg["abs_states"]),
        "abstract_transitions": len(agg["abs_trans"]),
        "interleavings": len(agg["inter"]),
        "interleavings_measure": "distinct sequences of (session, op kind) over a whole run",
        "workers": agg["workers"],
        "components": cls.COMPONENTS if hasattr(cls, "COMPONENTS") else {},
        "known_findings_hit": sorted(known_hit),
        "determinism_sample": det,
        "other_counters": {k: v for k, v in sorted(st.items())
                           if not k.startswith(("op:", "outcome:", "fault_", "probe:")) and k != "steps"},
    }
    ev = {"property_id": prop, "tier": tier, "seed": batch_seed, "level": "exploration", "coverage": cov,
          "assumptions": list(getattr(cls, "ASSUMPTIONS", [])), "wall_s": round(wall, 2), "violations": nviol}
    d = os.path.join(VERIF_DIR, "evidence")
    if os.environ.get("VERIF_REPO", "/repo") != "/repo":
        # a scratch tree is under test (sensitivity / seeded changes): never overwrite the
        # evidence of the repository itself
        d = os.path.join(os.environ["VERIF_REPO"], "_verif_evidence")
    os.makedirs(d, exist_ok=True)
    with open(os.path.join(d, prop + ".json"), "w") as f:
        json.dump(ev, f, indent=1, default=_jd)
        f.write("\n")


def cmd_setup():
    """Nothing to build: check that the interpreter sees the repository's
    working tree and its dependencies."""
    import numpy
    import tracklib
    from . import kernel
    print("setup ok: python %s, numpy %s, tracklib from %s" % (sys.version.split()[0], numpy.__version__,
                                                              kernel.tree_info()))
    return 0


def cmd_one(world, focus, index, batch_seed):
    from . import kernel
    cls = kernel.get_world(world)
    seed = kernel.run_seed(world + ":" + focus, batch_seed, index)
    res = kernel.generated_run(cls, focus, seed)
    print("seed", seed, "cfg", json.dumps(res["cfg"]))
    for st, o in zip(res["steps"], res["outcomes"]):
        print(o, json.dumps(st)[:300])
    print("digest", res["digest"])
    print("violations", json.dumps(res["violations"], indent=1, default=_jd))
    return 0


def main():
    _reexec()
    ap = argparse.ArgumentParser(prog="verif")
    sub = ap.add_subparsers(dest="cmd", required=True)
    c = sub.add_parser("check")
    c.add_argument("prop")
    c.add_argument("--tier", default=os.environ.get("VERIF_TIER", "quick"), choices=["quick", "thorough"])
    c.add_argument("--runs", type=int)
    c.add_argument("--wall", type=int)
    r = sub.add_parser("replay")
    r.add_argument("path")
    r.add_argument("--quiet", action="store_true")
    s = sub.add_parser("selftest")
    s.add_argument("what", choices=["determinism"])
    s.add_argument("--seeds", type=int, default=300)
    d = sub.add_parser("digests")
    d.add_argument("world")
    d.add_argument("focus")
    d.add_argument("batch_seed", type=int)
    d.add_argument("lo", type=int)
    d.add_argument("n", type=int)
    sub.add_parser("setup")
    o = sub.add_parser("one")
    o.add_argument("world")
    o.add_argument("focus")
    o.add_argument("index", type=int)
    o.add_argument("--seed", type=int, default=int(os.environ.get("VERIF_SEED", "1")))
    a = ap.parse_args()
    try:
        if a.cmd == "check":
            try:
                return cmd_check(a.prop, a.tier, a.runs, a.wall)
            finally:
                for ch in __import__("multiprocessing").active_children():
                    ch.kill()
        if a.cmd == "replay":
            return cmd_replay(a.path, a.quiet)
        if a.cmd == "selftest":
            return cmd_selftest_determinism(a.seeds)
        if a.cmd == "digests":
            return cmd_digests(a.world, a.focus, a.batch_seed, a.lo, a.n)
        if a.cmd == "one":
            return cmd_one(a.world, a.focus, a.index, a.seed)
        if a.cmd == "setup":
            return cmd_setup()
    except Exception:
        print("HARNESS-ERROR:\n" + traceback.format_exc())
        return 2
    return 2
