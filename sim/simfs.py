"""Simulated disk, clock, interrupt injector and process-global hygiene.

Seams (no hook in /repo): the names `open`, `os` and `datetime` are looked up in
a module's globals before builtins, so the simulator sets them as attributes on
the tracklib I/O modules (fetched from sys.modules — `import tracklib.io.x`
resolves to the standard `io` because of star imports) and removes them again.
"""
import errno as _errno
import io
import os as _real_os
import sys

from .kernel import HarnessError, InjectedInterrupt, SimCrash

IO_MODULES = ("tracklib.io.track_writer", "tracklib.io.track_reader",
              "tracklib.io.network_writer", "tracklib.io.network_reader")
SIMROOT = "/sim"


class FaultPlan:
    """At most one armed fault per step.  kind in open_error, write_error,
    close_error, read_error, crash, interrupt.  `at` is the 1-based index of
    the matching primitive call (or traced line event) inside the step."""

    def __init__(self):
        self.clear()

    def clear(self):
        self.kind = None
        self.at = 0
        self.errno = 0
        self.keep = 1.0
        self.fired = False
        self.n = {"open": 0, "write": 0, "close": 0, "read": 0, "line": 0, "listdir": 0}

    def arm(self, fault):
        self.clear()
        if fault:
            self.kind = fault["kind"]
            self.at = int(fault.get("at", 1))
            self.errno = int(fault.get("errno", _errno.EIO))
            self.keep = float(fault.get("keep", 1.0))

    def tick(self, prim):
        """Count one primitive call; True when the armed fault fires now."""
        self.n[prim] += 1
        if self.fired or self.kind is None:
            return False
        want = {"open_error": "open", "write_error": "write", "close_error": "close",
                "read_error": "read", "crash": "write", "listdir_error": "listdir"}.get(self.kind)
        if want == prim and self.n[prim] == self.at:
            self.fired = True
            return True
        return False


class _WriteHandle:
    def __init__(self, fs, path, append=False):
        self.fs = fs
        self.path = path
        self.closed = False
        if not append or path not in fs.files:
            fs.files[path] = ""          # POSIX: truncation at open ("w"); "a" keeps what is there
        fs.open_writes[path] = self
        self._parts = []                 # written since the last sync (appending to one long string is quadratic)

    def sync(self):
        if self._parts:
            self.fs.files[self.path] = self.fs.files.get(self.path, "") + "".join(self._parts)
            self._parts = []

    def write(self, s):
        if self.closed:
            raise ValueError("I/O operation on closed file.")
        if self.fs.plan.tick("write"):
            self.sync()
            if self.fs.plan.kind == "crash":
                raise SimCrash("crash during write to " + self.path)
            raise OSError(self.fs.plan.errno, _real_os.strerror(self.fs.plan.errno), self.path)
        self._parts.append(s)
        self.fs.bytes_written += len(s)
        return len(s)

    def close(self):
        if self.closed:
            return
        self.sync()
        self.closed = True
        self.fs.open_writes.pop(self.path, None)
        if self.fs.plan.tick("close"):
            # data of a failed close is not guaranteed: the file is torn
            self.fs.torn.add(self.path)
            raise OSError(self.fs.plan.errno, _real_os.strerror(self.fs.plan.errno), self.path)

    def flush(self):
        pass

    def __enter__(self):
        return self

    def __exit__(self, *a):
        self.close()
        return False


class _ReadHandle:
    """Text reader over a snapshot taken at open; every read primitive is a
    fault point."""

    def __init__(self, fs, path, text):
        self.fs = fs
        self.path = path
        self._io = io.StringIO(text)
        self.closed = False

    def _tick(self):
        if self.fs.plan.tick("read"):
            raise OSError(self.fs.plan.errno, _real_os.strerror(self.fs.plan.errno), self.path)

    def readline(self, *a):
        self._tick()
        return self._io.readline(*a)

    def readlines(self, *a):
        self._tick()
        return self._io.readlines(*a)

    def read(self, *a):
        self._tick()
        return self._io.read(*a)

    def __iter__(self):
        return self

    def __next__(self):
        self._tick()
        line = self._io.readline()
        if line == "":
            raise StopIteration
        return line

    def close(self):
        self.closed = True

    def __enter__(self):
        return self

    def __exit__(self, *a):
        self.close()
        return False


class _BinWriteHandle:
    """Binary write handle (pickle.dump of the spatial index): same fault points as text."""

    def __init__(self, fs, path):
        self.fs = fs
        self.path = path
        self.closed = False
        fs.files[path] = b""
        fs.open_writes[path] = self

    def write(self, b):
        if self.closed:
            raise ValueError("I/O operation on closed file.")
        if self.fs.plan.tick("write"):
            if self.fs.plan.kind == "crash":
                raise SimCrash("crash during write to " + self.path)
            raise OSError(self.fs.plan.errno, _real_os.strerror(self.fs.plan.errno), self.path)
        self.fs.files[self.path] += bytes(b)
        self.fs.bytes_written += len(b)
        return len(b)

    def close(self):
        if self.closed:
            return
        self.closed = True
        self.fs.open_writes.pop(self.path, None)
        if self.fs.plan.tick("close"):
            self.fs.torn.add(self.path)
            raise OSError(self.fs.plan.errno, _real_os.strerror(self.fs.plan.errno), self.path)

    def flush(self):
        pass


class _BinReadHandle:
    def __init__(self, fs, path, data):
        self.fs = fs
        self.path = path
        self._io = io.BytesIO(data)

    def _tick(self):
        if self.fs.plan.tick("read"):
            raise OSError(self.fs.plan.errno, _real_os.strerror(self.fs.plan.errno), self.path)

    def read(self, *a):
        self._tick()
        return self._io.read(*a)

    def readline(self, *a):
        self._tick()
        return self._io.readline(*a)

    def readinto(self, b):
        self._tick()
        return self._io.readinto(b)

    def close(self):
        pass


class SimFS:
    def __init__(self):
        self.files = {}
        self.dirs = {SIMROOT}
        self.open_writes = {}
        self.torn = set()
        self.plan = FaultPlan()
        self.ls_seed = 0
        self.bytes_written = 0

    # -- the `open` seen by tracklib.io.* --------------------------------------
    def open(self, path, mode="r", *a, **k):
        if not isinstance(path, str) or not path.startswith(SIMROOT + "/"):
            return io.open(path, mode, *a, **k)     # resource files of the repo
        if self.plan.tick("open"):
            raise OSError(self.plan.errno, _real_os.strerror(self.plan.errno), path)
        if "b" in mode:
            if "w" in mode:
                return _BinWriteHandle(self, path)
            if path not in self.files or not isinstance(self.files[path], bytes):
                raise FileNotFoundError(_errno.ENOENT, "No such file or directory", path)
            return _BinReadHandle(self, path, self.files[path])
        if "w" in mode or "a" in mode:
            d = path.rsplit("/", 1)[0]
            if d not in self.dirs:
                raise FileNotFoundError(_errno.ENOENT, "No such file or directory", path)
            if path in self.dirs:
                raise IsADirectoryError(_errno.EISDIR, "Is a directory", path)
            return _WriteHandle(self, path, append="a" in mode)
        if path not in self.files:
            raise FileNotFoundError(_errno.ENOENT, "No such file or directory", path)
        self.sync()
        return _ReadHandle(self, path, self.files[path])

    def sync(self):
        """Make what open text handles have written visible in `files`."""
        for h in list(self.open_writes.values()):
            if hasattr(h, "sync"):
                h.sync()

    def mkdir(self, path):
        self.dirs.add(path.rstrip("/"))

    def listdir(self, path):
        p = path.rstrip("/")
        if self.plan.tick("listdir"):
            raise OSError(self.plan.errno, _real_os.strerror(self.plan.errno), path)
        if p not in self.dirs:
            raise FileNotFoundError(_errno.ENOENT, "No such file or directory", path)
        names = sorted(f[len(p) + 1:] for f in self.files
                       if f.startswith(p + "/") and "/" not in f[len(p) + 1:])
        # legal nondeterminism of a real directory: order decided by the step
        import random
        random.Random(self.ls_seed).shuffle(names)
        return names

    def crash(self, keep):
        """Files whose handle is still open keep a prefix of what was written."""
        torn = []
        self.sync()
        for path in list(self.open_writes):
            data = self.files.get(path, "")
            self.files[path] = data[: int(len(data) * keep)]
            self.torn.add(path)
            torn.append(path)
        self.open_writes.clear()
        return torn


class _PathShim:
    def __init__(self, fs):
        self._fs = fs

    def isfile(self, p):
        if isinstance(p, str) and p.startswith(SIMROOT):
            return p in self._fs.files
        return _real_os.path.isfile(p)

    def isdir(self, p):
        if isinstance(p, str) and p.startswith(SIMROOT):
            return p.rstrip("/") in self._fs.dirs
        return _real_os.path.isdir(p)

    def exists(self, p):
        return self.isfile(p) or self.isdir(p)

    def __getattr__(self, name):          # basename, join, split, splitext, dirname ...
        return getattr(_real_os.path, name)


class OsShim:
    def __init__(self, fs):
        self._fs = fs
        self.path = _PathShim(fs)

    def listdir(self, p):
        if isinstance(p, str) and p.startswith(SIMROOT):
            return self._fs.listdir(p)
        return _real_os.listdir(p)

    def __getattr__(self, name):
        return getattr(_real_os, name)


class _Now:
    def __init__(self, f):
        (self.year, self.month, self.day, self.hour, self.minute, self.second) = f[:6]
        self.microsecond = 0


class SimClock:
    """Simulated wall clock: seconds since 1970 (proleptic, no leap seconds)."""

    def __init__(self, start=0):
        self.t = int(start)

    def fields(self):
        import datetime as _dt
        d = _dt.datetime(1970, 1, 1) + _dt.timedelta(seconds=self.t)
        return (d.year, d.month, d.day, d.hour, d.minute, d.second)

    def now(self):
        return _Now(self.fields())


class DatetimeShim:
    """Stands in for the name `datetime` (the class) in tracklib.core.obs_time."""

    def __init__(self, clock):
        self._clock = clock

    def now(self, *a):
        return self._clock.now()


# ---------------------------------------------------------------------------------
# Seam installation
# ---------------------------------------------------------------------------------
def _mods():
    import tracklib  # noqa: F401  (populates sys.modules)
    import tracklib.io  # noqa: F401
    return [sys.modules[m] for m in IO_MODULES]


_MISSING = object()
_saved = {}


def install(fs, clock):
    shim = OsShim(fs)
    uninstall()
    targets = [(m, "open", fs.open) for m in _mods()] + [(m, "os", shim) for m in _mods()]
    targets.append((sys.modules["tracklib.core.obs_time"], "datetime", DatetimeShim(clock)))
    for mod, name, val in targets:
        _saved[(mod.__name__, name)] = (mod, mod.__dict__.get(name, _MISSING))
        setattr(mod, name, val)


def uninstall():
    for (mname, name), (mod, old) in list(_saved.items()):
        if old is _MISSING:
            if name in mod.__dict__:
                delattr(mod, name)
        else:
            setattr(mod, name, old)
    _saved.clear()


# ---------------------------------------------------------------------------------
# Interrupt injection: KeyboardInterrupt at the k-th traced line event
# ---------------------------------------------------------------------------------
_TRACED = (_real_os.sep + "tracklib" + _real_os.sep + "io" + _real_os.sep,
           _real_os.sep + "tracklib" + _real_os.sep + "core" + _real_os.sep + "obs_time.py")


_SETTERS = ("setPrintFormat", "setReadFormat")
_SETTER_CALLS = ("ObsTime.setPrintFormat(", "ObsTime.setReadFormat(")


class Interrupter:
    def __init__(self, plan, traced=None):
        self.plan = plan
        self.traced = traced

    @staticmethod
    def _eligible(frame):
        """No code can protect a restore statement against an asynchronous exception
        that lands inside the restore itself, and no property demands it: line events
        inside the two format setters (and whatever they call) and on the statements
        that call them are not interruption points."""
        f, depth = frame, 0
        while f is not None and depth < 6:
            if f.f_code.co_name in _SETTERS:
                return False
            f, depth = f.f_back, depth + 1
        import linecache
        text = linecache.getline(frame.f_code.co_filename, frame.f_lineno).strip()
        return not text.startswith(_SETTER_CALLS)

    def _local(self, frame, event, arg):
        if event == "line":
            if not self._eligible(frame):
                return self._local
            self.plan.n["line"] += 1
            if not self.plan.fired and self.plan.n["line"] == self.plan.at:
                self.plan.fired = True
                raise InjectedInterrupt("injected at line event %d (%s:%d)" % (
                    self.plan.at, _real_os.path.basename(frame.f_code.co_filename), frame.f_lineno))
        return self._local

    def _global(self, frame, event, arg):
        fn = frame.f_code.co_filename
        if self.traced is not None:
            return self._local if fn.endswith(self.traced) else None
        if fn.endswith(_TRACED[1]) or _TRACED[0] in fn:
            return self._local
        return None

    def __enter__(self):
        sys.settrace(self._global)
        return self

    def __exit__(self, *a):
        sys.settrace(None)
        return False


# ---------------------------------------------------------------------------------
# Process-global hygiene
# ---------------------------------------------------------------------------------
DEFAULT_FMT = "2D/2M/4Y 2h:2m:2s"


def reset_globals():
    """Import-time values of every process global listed in DESIGN.md §1.2."""
    from tracklib.core.obs_time import ObsTime
    ObsTime.setReadFormat(DEFAULT_FMT)
    ObsTime.setPrintFormat(DEFAULT_FMT)
    mp = sys.modules.get("tracklib.algo.mapping")
    if mp is not None:
        for name in ("STATES", "net"):
            if name in mp.__dict__:
                del mp.__dict__[name]
    nr = sys.modules.get("tracklib.io.network_reader")
    if nr is not None:
        nr.NetworkReader.counter = 0


_PLAIN = (int, float, str, bool, type(None), bytes)


def _plain(v, depth=0):
    if isinstance(v, _PLAIN):
        return True
    if depth < 3 and isinstance(v, (list, tuple)):
        return all(_plain(x, depth + 1) for x in v)
    if depth < 3 and isinstance(v, dict):
        return all(isinstance(k, _PLAIN) and _plain(x, depth + 1) for k, x in v.items())
    return False


def global_snapshot():
    """Plain-typed attributes of all tracklib modules and classes (name-mangled
    class attributes included).  Diagnostic only: never decides a property."""
    snap = {}
    for mname, mod in sorted(sys.modules.items()):
        if mod is None or not (mname == "tracklib" or mname.startswith("tracklib.")):
            continue
        for k, v in list(vars(mod).items()):
            if k.startswith("__") and k.endswith("__"):
                continue
            if k in ("open", "os", "datetime"):
                continue
            if _plain(v):
                snap[mname + ":" + k] = repr(v)
            elif isinstance(v, (dict, list, set)):
                snap[mname + ":" + k] = "container of %d" % len(v)      # a cache that grows shows as a new size
            elif isinstance(v, type) and getattr(v, "__module__", "").startswith("tracklib"):
                for ck, cv in list(vars(v).items()):
                    if ck.startswith("__") and ck.endswith("__"):
                        continue
                    if _plain(cv):
                        snap[v.__module__ + "." + v.__name__ + ":" + ck] = repr(cv)
                    elif isinstance(cv, (dict, list, set)):
                        snap[v.__module__ + "." + v.__name__ + ":" + ck] = "container of %d" % len(cv)
    return snap


def diff_snapshots(a, b):
    return sorted(k for k in set(a) | set(b) if a.get(k) != b.get(k))
