"""Pristine fork server.

Minimisation and replay must not depend on whatever earlier runs left in the
process (module globals, class attributes, mutable default arguments of the
library under test ...).  A server process is forked from the check process
*before* it executes any tracklib code; for every candidate it forks a
grandchild, executes `prelude` runs followed by the candidate run there, and
sends the result back.  Every test therefore starts from import-time state,
at the cost of a fork (a few milliseconds) instead of a new interpreter.
"""
import multiprocessing
import traceback

from . import kernel


def _execute(world, prelude, cfg, steps, conn, step_limit=None):
    try:
        if step_limit:
            kernel.STEP_LIMIT_S = step_limit
        cls = kernel.get_world(world)
        for p in prelude or []:
            try:
                kernel.replay_run(cls, p["config"], p["steps"])
            except Exception:  # noqa: BLE001 - a prelude run only has to leave its state behind
                pass
        res = kernel.replay_run(cls, cfg, steps)
        conn.send({"ok": True, "violations": res["violations"], "digest": res["digest"],
                   "outcomes": res["outcomes"], "steps": res["steps"]})
    except BaseException:  # noqa: BLE001
        conn.send({"ok": False, "error": traceback.format_exc()})
    finally:
        conn.close()


def _serve(conn):
    ctx = multiprocessing.get_context("fork")
    import tracklib  # noqa: F401  import-time state only: nothing of tracklib is executed here
    import tracklib.io  # noqa: F401
    for w in ("io", "track", "net"):
        kernel.get_world(w)
    while True:
        try:
            job = conn.recv()
        except EOFError:
            return
        if job is None:
            return
        a, b = ctx.Pipe(duplex=False)
        p = ctx.Process(target=_execute, args=(job["world"], job.get("prelude"), job["cfg"], job["steps"], b,
                                                 job.get("step_limit")))
        p.start()
        b.close()
        try:
            out = a.recv() if a.poll(job.get("timeout", 120)) else {"ok": False, "error": "timeout"}
        except EOFError:
            out = {"ok": False, "error": "candidate process died"}
        if p.is_alive():
            p.kill()
        p.join()
        a.close()
        conn.send(out)


class Pristine:
    def __init__(self):
        ctx = multiprocessing.get_context("fork")
        self.conn, child = ctx.Pipe()
        self.proc = ctx.Process(target=_serve, args=(child,))
        self.proc.start()
        child.close()

    def run(self, world, cfg, steps, prelude=None, timeout=120, step_limit=None):
        self.conn.send({"world": world, "cfg": cfg, "steps": steps, "prelude": prelude, "timeout": timeout,
                        "step_limit": step_limit})
        return self.conn.recv()

    def close(self):
        try:
            self.conn.send(None)
        except Exception:  # noqa: BLE001
            pass
        self.proc.join(timeout=5)
        if self.proc.is_alive():
            self.proc.kill()

    def __del__(self):
        try:
            if self.proc.is_alive():
                self.proc.kill()
        except Exception:  # noqa: BLE001
            pass
