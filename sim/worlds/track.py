"""World `track` (properties C01, C04, C17): operation histories on long-lived
Track objects, checked after every step against an independent model.

The model is a list of observation records; every record carries a unique tag
(its x coordinate), its position, its timestamp fields and a dict
feature-name -> value.  Feature values written by the workload are unique within
a run, so a value read back is attributable to exactly one write.

Real: all of tracklib.  Stub: nothing (in-memory world); the only injected
"fault" is a request the API documents as refused.
"""
import copy
import os
import time
import datetime as _dt
import math

from ..kernel import World, Skip, HarnessError

NAMES = ("a", "b", "c", "d", "X", "Y", "k", "xy")      # "X" / "Y" are ordinary feature names: only the lower-case x, y, z are reserved
RESERVED = ("x", "y", "z", "t", "timestamp", "idx")
UNARY = ("IDENTITY", "INVERTER", "SQUARE", "RECTIFIER", "SHIFT_RIGHT", "SHIFT_LEFT",
         "DIFFERENTIATOR", "INTEGRATOR")
BINARY = ("ADDER", "SUBSTRACTER", "MULTIPLIER", "ABOVE", "BELOW")
SCALAR = ("SCALAR_ADDER", "SCALAR_MULTIPLIER", "SCALAR_REV_SUBSTRACTER", "SHIFT")
AGG = ("SUM", "MIN", "MAX", "AVERAGER")
EXPR_SHAPES = ("add", "mullit", "litsub", "twotemp", "reflex", "diff", "integ", "xshift",
               "copy", "three", "absf", "avgdev", "sumfn", "alias", "literal", "xfrom", "tree", "tree", "extvar")
NOEQ_SHAPES = ("add", "twotemp", "diff", "mullit", "absf", "avgdev", "tree")
TREE_FUNCS = {"ABS": "RECTIFIER", "D": "DIFFERENTIATOR", "I": "INTEGRATOR"}
TREE_AGGS = ("AVG", "SUM", "MIN", "MAX")
T0 = (2020, 3, 1, 0, 0, 0, 0)
# calendar mode: instants on both sides of day / month / year boundaries, listed out of order
CAL = [(2020, 3, 1, 0, 0, 0, 0), (2020, 1, 31, 18, 0, 0, 0), (2020, 2, 1, 6, 0, 0, 0), (2019, 12, 31, 23, 59, 59, 0),
       (2020, 1, 1, 0, 0, 0, 0), (2020, 2, 29, 1, 0, 0, 0), (2020, 2, 28, 23, 0, 0, 0), (2020, 10, 2, 5, 30, 0, 0),
       (2020, 9, 30, 7, 0, 0, 500), (2021, 1, 1, 0, 0, 0, 0), (2020, 12, 31, 23, 59, 59, 999),
       (2020, 6, 15, 12, 0, 0, 0), (2020, 5, 20, 12, 0, 0, 0), (2020, 3, 1, 0, 0, 1, 0),
       (2071, 5, 5, 5, 5, 5, 0),          # outside the domain of sortRadix (1970..2069), like the next ones
       (2100, 2, 28, 23, 0, 0, 0), (2100, 3, 1, 1, 0, 0, 0), (2100, 12, 31, 23, 0, 0, 0), (2101, 1, 1, 1, 0, 0, 0)]
# nights on which a European or North-American local zone changes its offset (the instants are what
# they are -- fields of a time stamp without zone --, whatever zone the process happens to be in)
CAL_DST = [(2020, 3, 29, 1, 30, 0, 0), (2020, 3, 29, 3, 30, 0, 0), (2020, 3, 29, 2, 30, 0, 0), (2020, 10, 25, 1, 30, 0, 0),
           (2020, 10, 25, 3, 30, 0, 0), (2020, 3, 8, 1, 0, 0, 0), (2020, 3, 8, 4, 0, 0, 0), (2020, 3, 28, 12, 0, 0, 0)]
ZONES = ["CET-1CEST,M3.5.0,M10.5.0/3", "EST5EDT,M3.2.0,M11.1.0", "NZST-12NZDT,M9.5.0,M4.1.0/3", "UTC-14"]
NAN = float("nan")

C01_OPS = ("create", "update", "remove", "setitem", "setitem_delete", "setitem_func", "setobs",
           "add_af", "operate", "operate_list", "apply", "aggregate", "correlator", "expr", "expr_noeq", "rejected",
           "operate_any", "aggregate_any", "biop", "coll_feature", "neighbour", "segment")
# operator objects whose values are not modelled: the output column is adopted after the call
# and everything else (names, widths, other columns, positions, timestamps) must be unchanged
ANY_UNARY = ("FORWARD_FINITE_DIFF", "BACKWARD_FINITE_DIFF", "CENTERED_FINITE_DIFF", "SECOND_ORDER_FINITE_DIFF",
             "SHIFT_CIRCULAR_RIGHT", "SHIFT_CIRCULAR_LEFT", "INVERSER", "REVERSER", "DEBIASER", "NORMALIZER",
             "SQRT", "DIODE", "SIGN", "EXP", "LOG", "COS", "SIN", "TAN")
ANY_BINARY = ("DIVIDER", "POWER", "MODULO", "QUAD_ADDER", "DERIVATOR", "RENORMALIZER", "POINTWISE_EQUALER",
              "CONVOLUTION", "CORRELATOR")
ANY_SCALAR = ("SHIFT_CIRCULAR", "SHIFT_REV", "SHIFT_CIRCULAR_REV", "SCALAR_SUBSTRACTER", "SCALAR_DIVIDER",
              "SCALAR_POWER", "SCALAR_MODULO", "SCALAR_ABOVE", "SCALAR_BELOW", "SCALAR_REV_ABOVE",
              "SCALAR_REV_BELOW", "SCALAR_REV_DIVIDER", "SCALAR_REV_POWER", "SCALAR_REV_MODULO", "THRESHOLDER")
ANY_AGG_U = ("VARIANCE", "STDDEV", "MSE", "RMSE", "MAD", "MEDIAN", "ARGMIN", "ARGMAX", "ZEROS")
ANY_AGG_B = ("COVARIANCE", "CORRELATION", "L0", "L1", "L2", "LINF", "EQUAL")
# refusals of an unmodelled operator on values outside its domain (division by zero, square root
# of a negative number, overflow, median of a column that holds only NaN ...): C01 does not
# promise that every operator accepts every column, so the call may fail with an ordinary
# exception -- the table must stay aligned and nothing else may change, which is what is judged
DOMAIN_ERRORS = (Exception,)
C04_OPS = ("add_obs", "sort", "insert_chrono", "insert_at", "remove_list", "remove_obs", "remove_first",
           "remove_last", "extract", "span", "concat", "mod_n", "mod_pattern", "gt", "lt", "set_obs",
           "fork_reverse", "fork_span", "edit_time", "slice", "pop_obs", "span_track", "sort_radix", "fork_concat", "fork_derived", "fork_simplify", "describe", "remove_by_time", "set_obs_list", "via", "neighbour4")
# steps a session may take whose track holds the same Obs object at two positions (the result of
# t + t and the like, shared by design): everything that neither creates features nor edits an Obs
DUP_SAFE_OPS = ("sort", "sort_radix", "remove_list", "remove_obs", "remove_first", "remove_last", "pop_obs",
                "extract", "slice", "span", "span_track", "gt", "lt", "mod_n", "mod_pattern", "concat",
                "insert_at", "add_obs", "insert_chrono", "set_obs", "fork_concat", "new_track", "fork_derived",
                "fork_simplify", "describe", "remove_by_time", "set_obs_list")
# what a session may do whose observation rows carry values its track does not list (tracks
# produced by the simplifier): the feature computations of C17, and everything that only moves Obs around
LOOSE_OK_OPS = DUP_SAFE_OPS + ("abs_curv", "speed", "speed_direct", "ds", "remove")
C17_OPS = ("abs_curv", "speed", "speed_direct", "ds", "transform", "fork_noise", "add_seconds", "speed_smoothed",
           "coll_speed", "idle", "profile", "find_stops", "neighbour17")


def feq(a, b):
    if isinstance(a, float) and isinstance(b, float) and a != a and b != b:
        return True
    try:
        return a == b and not (isinstance(a, bool) ^ isinstance(b, bool) and False)
    except Exception:
        return False


def leq(a, b):
    return len(a) == len(b) and all(feq(x, y) for x, y in zip(a, b))


def close(a, b, rel=1e-9):
    if isinstance(a, (str, bytes)) or isinstance(b, (str, bytes)) or a is None or b is None:
        return a == b               # a text where a number is due (read from the wrong column) is simply different
    if a != a and b != b:
        return True
    if a != a or b != b:
        return False
    return abs(a - b) <= rel * max(1.0, abs(a), abs(b))


def jsonable(v):
    """NaN-safe rendering for reports."""
    if isinstance(v, float) and v != v:
        return "nan"
    if isinstance(v, (list, tuple)):
        return [jsonable(x) for x in v]
    return v


def abs_seconds(tf):
    d = _dt.datetime(tf[0], tf[1], tf[2], tf[3], tf[4], tf[5]) - _dt.datetime(1970, 1, 1)
    return d.days * 86400 + d.seconds + tf[6] / 1000.0


def _wchoice(r, pairs):
    tot = sum(w for _, w in pairs)
    x = r.random() * tot
    for v, w in pairs:
        x -= w
        if x < 0:
            return v
    return pairs[-1][0]


class InjectedCallableError(RuntimeError):
    """Raised by a user-supplied callable at a seeded invocation (fault kind callable_raises)."""


class TrackWorld(World):
    NAME = "track"
    PROPS = ("C01", "C04", "C17")
    FALSIFIERS = {"C01": C01_OPS, "C04": C04_OPS, "C17": C17_OPS}
    COMPONENTS = {
        "real": ["tracklib.core.Track (feature table, evaluator, sequence operators)", "tracklib.core.Obs",
                 "tracklib.core.ObsTime", "tracklib.core.operators", "tracklib.core.utils (makeRPN, addListToAF)",
                 "tracklib.algo.cinematics.computeAbsCurv / estimate_speed", "tracklib.algo.analytics (ds, speed)"],
        "stub": ["stdout of tracklib: discarded",
                 "user callables handed to addAnalyticalFeature / APPLY: wrapped so that they raise at a seeded invocation"]}
    STATE_MEASURE = "per session: (size class 0,1,2,3,non-power-of-two,power-of-two; number of listed features; time-sorted; abs_curv cached; speed cached)"
    ASSUMPTIONS = [
        "in-memory world: no disk, clock or scheduler exists on these code paths; injected faults are requests the "
        "API refuses, user-supplied callables that raise at a seeded invocation, and operators provoked into "
        "refusing values outside their domain -- never pre-emption inside library code",
        "sessions interleave at whole-API-call granularity",
        "values of operators without a one-line definition, positions after in-place transformations, timestamps "
        "after addSeconds and the state of tracks that went through another subsystem (resampling, noise, "
        "simplification, * and **) are adopted from the real objects, not judged",
        "tracks derived by slicing share Obs objects with their source by design; when such a track lives on as a "
        "session, both only take steps that move observations around",
        "atomicity of a refused call is not demanded (its output column is adopted)",
        "the reference model and oracles in /verif/sim/worlds/track.py are correct"]

    # ------------------------------------------------------------------ config
    @classmethod
    def draw_config(cls, r, focus):
        w = {"C01": 1, "C04": 1, "C17": 1}
        w[focus] = r.choice([3, 5, 8])
        for k in w:
            if k != focus and r.random() < 0.3:
                w[k] = 0
        if focus == "C04" and r.random() < 0.5:
            w["C01"] = 0            # chronological insertion needs feature-less tracks
        ops = {}
        for fam, names in (("C01", C01_OPS), ("C04", C04_OPS), ("C17", C17_OPS)):
            for o in names:
                ops[o] = r.choice([0, 1, 1, 2, 4])
        ops["sort_radix"] = r.choice([0, 0, 0, 1]) if ops["sort_radix"] else 0      # 60 000 buckets per call: slow
        if not any(ops[o] for o in cls.FALSIFIERS[focus]):
            ops[cls.FALSIFIERS[focus][0]] = 2
        return {"nsteps": r.choice([5, 10, 20, 40, 80, 120]), "sessions": r.choice([1, 1, 2, 3]),
                "fam": w, "ops": ops, "size_bias": r.choice(["tiny", "pow2", "any"] * 5 + ["big"]),
                "n_instants": r.choice([1, 2, 4, 6]), "calendar": r.random() < 0.3,
                "with_features": r.random() < (0.3 if focus == "C04" else 0.6),
                "fork_rate": r.choice([0, 0.02, 0.08]), "names": list(NAMES[: r.choice([2, 3, 4, 4])]) if r.random() < 0.8 else r.choice(
                    [["a", "X", "b", "Y"], ["a", "k", "b", "xy"], ["xy", "k", "a"]]),
                "sorted_tracks": 0.9 if focus == "C17" else r.choice([0.2, 0.6, 0.9]),
                "renew": r.choice([0.01, 0.05, 0.15]), "callable_faults": r.choice([0, 0, 0.15, 0.4]),
                "np_time": r.random() < 0.08, "zones": r.random() < 0.1,
                # the local zone of the process (a C-library global any component may have selected)
                "tz": r.choice(ZONES) if r.random() < 0.12 else None, "int_vals": r.random() < 0.1}

    @classmethod
    def deepen(cls, cfg, r):
        cfg["nsteps"] = min(cfg["nsteps"] * 3, 360)
        cfg["size_bias"] = "big"
        cfg["sessions"] = 3
        cfg["n_instants"] = r.choice([6, 12, 40])
        if r.random() < 0.06:
            # a few short histories on tracks of hundreds of fixes
            cfg.update({"size_bias": "huge", "nsteps": r.choice([6, 10, 16]), "sessions": 1,
                        "n_instants": r.choice([40, 400])})
            cfg["ops"]["sort_radix"] = 0

    # ------------------------------------------------------------------- setup
    def setup(self):
        import tracklib  # noqa: F401
        from .. import simfs
        simfs.reset_globals()
        os.environ["TZ"] = self.cfg.get("tz") or "UTC"
        time.tzset()
        if self.cfg.get("tz"):
            self.probe("process_in_a_local_zone_with_daylight_saving")
        self.userpat = {}
        self.real = {}
        self.model = {}
        self.derived = {}
        self.counter = 0
        self.tagc = 0

    # ------------------------------------------------------------ model helpers
    def _col(self, m, name):
        if name == "x":
            return [o["x"] for o in m["obs"]]
        if name == "y":
            return [o["y"] for o in m["obs"]]
        if name == "idx":
            return list(range(len(m["obs"])))
        return [o["f"][name] for o in m["obs"]]

    def _setcol(self, m, name, vals):
        if name not in m["names"]:
            m["names"].append(name)
        for o, v in zip(m["obs"], vals):
            o["f"][name] = v

    def _delcol(self, m, name):
        m["names"].remove(name)
        for o in m["obs"]:
            del o["f"][name]
        m["fresh"].pop(name, None)

    def _sorted(self, m):
        ts = [tuple(o["t"]) for o in m["obs"]]
        return all(ts[i] <= ts[i + 1] for i in range(len(ts) - 1))

    def abstract_state(self):
        out = []
        for s in sorted(self.model):
            m = self.model[s]
            n = len(m["obs"])
            out.append((min(n, 3) if n < 4 else (4 if n & (n - 1) else 5), len(m["names"]), self._sorted(m),
                        "abs_curv" in m["names"], "speed" in m["names"]))
        return tuple(out)

    # --------------------------------------------------------------- generator
    def _uval(self):
        self.counter += 1
        if self.cfg.get("int_vals") and self.counter % 3 == 0:
            return self.counter + 1000          # whole numbers stored as Python ints (counts, classes, flags)
        return self.counter + 0.5

    def _tag(self):
        # unique and exactly representable, but tiny: the heights of two fixes never differ by
        # more than a fraction of a millimetre, so the tag cannot interfere with anything
        # that compares positions with a tolerance
        self.tagc += 1
        return self.tagc * 2.0 ** -24

    def _gen_obs(self, r):
        k = r.randrange(self.cfg["n_instants"]) * r.choice([1, 1, 7])
        tf = self._instant(k)
        if r.random() < 0.1:
            tf[6] = r.choice([1, 500, 999])
        # z carries the unique tag of the observation (no operation of the workload writes z);
        # x and y repeat so that zero-length legs and revisited positions occur
        if self.cfg.get("int_vals") and r.random() < 0.4:
            return [r.choice([0, 1, 3, -2, 1000]), r.choice([0, 2, -1, 7]), self._tag(), tf]       # coordinates given as ints
        return [r.choice([0.0, 1.0, 1.00002, 3.5, -2.0, 1000.25, r.uniform(-50, 50), r.choice([4.0e6, -7.5e6, 123456.5])]),
                r.choice([0.0, 0.00001, 2.0, -1.5, 0.001, r.uniform(-50, 50)]), self._tag(), tf]

    def _instant(self, k):
        if self.cfg.get("tz") and self.cfg.get("calendar"):
            return list(CAL_DST[k % len(CAL_DST)])
        if self.cfg.get("calendar"):
            return list(CAL[k % len(CAL)])
        tf = list(T0)
        tf[4], tf[5] = (k // 60) % 60, k % 60
        return tf

    def _gen_size(self, r):
        b = self.cfg["size_bias"]
        if b == "tiny":
            return r.choice([0, 1, 1, 2, 2, 3, 4])
        if b == "pow2":
            return r.choice([1, 2, 3, 4, 7, 8, 9, 15, 16, 17])
        if b == "big":
            return r.choice([17, 31, 32, 33, 40, 63, 64, 65, 100, 130])
        if b == "huge":
            return r.choice([255, 256, 257, 300, 1000, 1025])       # thorough tier only: thresholds of buffers and caches
        return r.randint(0, 17)

    def _gen_value(self, r, n):
        k = r.random()
        if k < 0.5:
            return [self._uval() for _ in range(n)]
        if k < 0.58:
            if r.random() < 0.3:
                # a text that happens to spell the name of a feature or of a coordinate (a label "x", "speed")
                return r.choice(["x", "y", "idx", "speed", "a", "b", "t"])
            return "v%d" % int(self._uval())        # text-valued features are legal (the CSV reader stores them)
        return self._uval()

    def gen(self, rngs):
        r = rngs("gen")
        s = r.randrange(self.cfg["sessions"])
        m = self.model.get(s)
        if m is None or (len(m["obs"]) == 0 and r.random() < 0.5) or r.random() < self.cfg.get("renew", 0.01):
            n = self._gen_size(r)
            obs = [self._gen_obs(r) for _ in range(n)]
            if r.random() < self.cfg.get("sorted_tracks", 0.5):
                obs.sort(key=lambda o: tuple(o[3]))
            st = {"op": "new_track", "s": s, "obs": obs}
            if n and self.cfg["with_features"] and r.random() < 0.5:
                first = list(self.cfg["names"][:2])
                if r.random() < 0.4:
                    first.reverse()          # creation order differs between tracks of one run
                st["feats"] = {nm: [self._uval() for _ in range(n)] for nm in first}
            return st
        if r.random() < self.cfg["fork_rate"] and self.cfg["sessions"] > 1:
            return {"op": "fork", "s": s, "to": (s + 1) % self.cfg["sessions"]}
        forced = getattr(self, "_force", {}).pop(s, None)
        if forced is not None:
            return forced
        fam = _wchoice(r, [(k, w) for k, w in self.cfg["fam"].items() if w])
        ops = {"C01": C01_OPS, "C04": C04_OPS, "C17": C17_OPS}[fam]
        cands = [(o, self.cfg["ops"][o]) for o in ops if self.cfg["ops"][o]]
        if not cands:
            cands = [(ops[0], 1)]
        op = _wchoice(r, cands)
        st = getattr(self, "_g_" + op)(r, m)
        st["op"] = st.get("op", op)
        st["s"] = s
        if st["op"] == "via" and st.get("kind") == "loop" and r.random() < 0.7:
            # a closed track is usually edited next: a coordinate written through the feature API
            if not hasattr(self, "_force"):
                self._force = {}
            self._force[s] = {"op": "setitem_func", "s": s, "name": "a", "coord": r.choice(["x", "y"]),
                              "func": "affine", "base": self._uval()}
        return st

    def _pick_name(self, r, m, existing=None):
        names = self.cfg["names"]
        if existing is True:
            have = [n for n in m["names"] if n in NAMES] or list(names)
            return r.choice(have)
        if existing is False:
            free = [n for n in names if n not in m["names"]] or list(names)
            return r.choice(free)
        return r.choice(names)

    def _pick_input(self, r, m):
        have = [n for n in m["names"] if n in NAMES]
        if have and r.random() < 0.85:
            return r.choice(have)
        return r.choice(["x", "idx", "y"] if (not have or r.random() < 0.7) else list(NAMES))

    def _g_create(self, r, m):
        st = {"name": self._pick_name(r, m, False if r.random() < 0.7 else None),
              "value": self._gen_value(r, len(m["obs"]))}
        if r.random() < 0.1:
            st["default_init"] = True
        return st

    def _g_update(self, r, m):
        return {"name": self._pick_name(r, m, True), "value": self._gen_value(r, len(m["obs"]))}

    def _g_remove(self, r, m):
        names = [n for n in m["names"]]
        return {"name": r.choice(names) if names else self._pick_name(r, m)}

    def _g_setitem(self, r, m):
        return {"name": self._pick_name(r, m), "value": self._gen_value(r, len(m["obs"]))}

    def _g_setitem_delete(self, r, m):
        return self._g_remove(r, m)

    def _callable_fault(self, r, st):
        if r.random() < self.cfg.get("callable_faults", 0):
            st["fault"] = {"kind": "callable_raises", "at": r.choice([1, 1, 2, 3, 5, 9, 17, 33])}
        return st

    def _g_setitem_func(self, r, m):
        if r.random() < 0.12:
            return {"name": "a", "coord": r.choice(["x", "y"]), "func": "affine", "base": self._uval()}
        return self._callable_fault(r, {"name": self._pick_name(r, m), "func": r.choice(["affine", "next_x"]),
                                        "base": self._uval()})

    def _g_coll_feature(self, r, m):
        return {"out": self._pick_name(r, m), "lit": r.choice([2, 3, 0.5, 10]), "how": r.choice(["operate", "add_af"]),
                "base": self._uval(), "twice": r.random() < 0.2}

    def _g_add_af(self, r, m):
        return self._callable_fault(r, {"name": self._pick_name(r, m), "func": r.choice(["affine", "next_x", "lazy_speed", "running"]),
                                        "base": self._uval(), "byname": r.random() < 0.3})

    def _g_setobs(self, r, m):
        return {"name": self._pick_name(r, m, True), "i": r.randrange(64), "value": self._uval(),
                "swap": r.random() < 0.5}

    def _g_operate(self, r, m):
        kind = r.choice(["u", "u", "b", "b", "s"])
        out = self._pick_name(r, m)
        if r.random() < 0.2:
            out = None          # output == input (documented default)
        if kind == "u":
            return {"opr": r.choice(UNARY), "in1": self._pick_input(r, m), "out": out}
        if kind == "b":
            return {"opr": r.choice(BINARY), "in1": self._pick_input(r, m), "in2": self._pick_input(r, m),
                    "out": out}
        opr = r.choice(SCALAR)
        arg = r.choice([-2, -1, 0, 1, 2, 3]) if opr == "SHIFT" else r.choice([2.0, 3.0, 0.5, -1.0])
        return {"opr": opr, "in1": self._pick_input(r, m), "arg": arg, "out": out}

    def _g_operate_list(self, r, m):
        k = r.choice([1, 2, 2, 3])
        kind = r.choice(["u", "b", "s"])
        st = {"kind": kind, "ins": [self._pick_input(r, m) for _ in range(k)],
              "outs": r.sample(list(self.cfg["names"]) * 2, k) if r.random() < 0.8 else None}
        if st["outs"] is not None and len(set(st["outs"])) != k:
            st["outs"] = list(dict.fromkeys(st["outs"]))[:k]
            st["ins"] = st["ins"][: len(st["outs"])]
        if kind == "u":
            st["opr"] = r.choice(UNARY)
        elif kind == "b":
            st["opr"] = r.choice(BINARY)
            st["ins2"] = [self._pick_input(r, m) for _ in range(len(st["ins"]))]
        else:
            st["opr"] = r.choice(SCALAR[:3])
            st["arg"] = r.choice([2.0, 0.5, -1.0])
        return st

    def _g_apply(self, r, m):
        return self._callable_fault(r, {"in1": self._pick_input(r, m), "f": r.choice(["half", "plus7", "neg", "fillgap"]),
                                        "out": self._pick_name(r, m)})

    def _g_aggregate(self, r, m):
        st = {"opr": r.choice(AGG), "in1": self._pick_input(r, m)}
        if r.random() < 0.25:
            # list form: one number per listed feature
            st["ins"] = [self._pick_input(r, m) for _ in range(r.randint(1, 3))]
        return st

    def _g_operate_any(self, r, m):
        kind = r.choice(["u", "u", "b", "b", "s"])
        out = self._pick_name(r, m)
        if r.random() < 0.2:
            out = None
        if kind == "u":
            return {"opr": r.choice(ANY_UNARY), "in1": self._pick_input(r, m), "out": out}
        if kind == "b":
            return {"opr": r.choice(ANY_BINARY), "in1": self._pick_input(r, m), "in2": self._pick_input(r, m),
                    "out": out}
        opr = r.choice(ANY_SCALAR)
        arg = r.choice([-2, -1, 0, 1, 2, 3, 70]) if opr.startswith("SHIFT") else r.choice([2.0, 3.0, 0.5, -1.0, 0.0, 2])
        return {"opr": opr, "in1": self._pick_input(r, m), "arg": arg, "out": out}

    def _g_aggregate_any(self, r, m):
        if r.random() < 0.6:
            return {"opr": r.choice(ANY_AGG_U), "in1": self._pick_input(r, m)}
        return {"opr": r.choice(ANY_AGG_B), "in1": self._pick_input(r, m), "in2": self._pick_input(r, m),
                "lists": r.random() < 0.2}

    def _g_biop(self, r, m):
        return {"other": r.randrange(self.cfg["sessions"]), "a": self._pick_input(r, m), "b": r.choice(NAMES),
                "out": self._pick_name(r, m, False), "refused": r.random() < 0.3, "alias": r.random() < 0.3}

    def _g_correlator(self, r, m):
        return {"in1": self._pick_name(r, m, True), "in2": self._pick_name(r, m, True),
                "out": self._pick_name(r, m)}

    def _gen_tree(self, r, m, k, top=True):
        """Random expression with exactly k operator applications (each one materialises an
        evaluator temporary): ["n", name] | ["l", literal] | ["b", op, L, R] | ["f", fn, E] |
        ["g", aggregate, name]."""
        if k == 0:
            return ["n", self._pick_input(r, m)]
        u = r.random()
        if u < 0.15 and k == 1:
            return ["g", r.choice(TREE_AGGS), self._pick_input(r, m)]
        if u < 0.35:
            return ["f", r.choice(sorted(TREE_FUNCS)), self._gen_tree(r, m, k - 1, False)]
        kl = r.randint(0, k - 1)
        kr = k - 1 - kl
        L, R = self._gen_tree(r, m, kl, False), self._gen_tree(r, m, kr, False)
        u = r.random()
        if u < 0.12 and kr == 0:
            return ["b", "/", L, ["l", r.choice([2, 0.5, 10, 4])]]           # division by a non-zero number
        if u < 0.24 and kr == 0:
            return ["b", r.choice([">>", "<<"]), L, ["l", r.choice([1, 2, 3])]]   # circular delay / advance
        if u < 0.32 and kr == 0:
            return ["b", "^", L, ["l", r.choice([2, 3])]]                    # power (also written **)
        if r.random() < 0.3:
            def atom():
                return ["l", r.choice([2, 3, 0.5, 10, 7])] if r.random() < 0.7 else ["v", r.choice(["k1", "k2"])]
            lit = atom()
            if r.random() < 0.3:
                # a constant sub-expression (number op number): folded by the evaluator, no temporary
                lit = ["b", r.choice("+-*/"), atom(), atom()]
                if r.random() < 0.2:
                    lit = ["b", "^", ["l", r.choice([2, 3, 0.5, 10, 7])], ["l", r.choice([2, 3])]]
            if kl == 0 and r.random() < 0.5:
                L = lit
            elif kr == 0:
                R = lit
        return ["b", r.choice("++-*"), L, R]

    def _g_expr(self, r, m):
        st = {"shape": r.choice(EXPR_SHAPES), "out": self._pick_name(r, m), "a": self._pick_input(r, m),
              "b": self._pick_input(r, m), "c": self._pick_input(r, m),
              "lit": r.choice([2, 3, 0.5, 10]), "api": r.choice(["operate", "getitem"])}
        if m.get("looped") and r.random() < 0.5:
            st["shape"] = "xfrom"           # a coordinate written through the feature API on a closed track
        if st["shape"] == "extvar":
            st["kval"] = r.choice([2.0, 3.0, 0.5, -1.0, 10.0])
            st["a"] = r.choice(["x", "idx", st["a"]])
        if st["shape"] == "tree":
            st["tree"] = self._gen_tree(r, m, r.choice([2, 3, 3, 4, 5, 7, 12, 14]))
            st["ext"] = {"k1": r.choice([2.0, 7.0, 0.5]), "k2": r.choice([0.25, 3.0, -1.5])}
            st["bare"] = r.random() < 0.5
            st["pow_alias"] = r.random() < 0.3
            if r.random() < 0.25:
                st["reflex"] = r.choice("+-*")          # out += tree, out -= tree, out *= tree
                st["out"] = self._pick_name(r, m, True)
        return st

    def _g_expr_noeq(self, r, m):
        st = {"shape": r.choice(NOEQ_SHAPES), "a": self._pick_input(r, m), "b": self._pick_input(r, m),
              "lit": r.choice([2, 3, 0.5]), "api": r.choice(["operate", "getitem"])}
        if st["shape"] == "tree":
            st["tree"] = self._gen_tree(r, m, r.choice([2, 3, 4, 6, 12]))
            st["ext"] = {"k1": r.choice([2.0, 7.0, 0.5]), "k2": r.choice([0.25, 3.0, -1.5])}
            st["bare"] = r.random() < 0.5
        return st

    def _g_rejected(self, r, m):
        return {"kind": r.choice(["update_unknown", "remove_unknown", "create_reserved", "read_unknown",
                                  "setobs_unknown", "delete_unknown", "expr_unknown", "expr_unknown",
                                  "expr_unknown_function", "expr_unknown_function", "create_on_empty", "resample_zero"]),
                "a": self._pick_input(r, m), "b": self._pick_input(r, m), "out": self._pick_name(r, m),
                "name": self._pick_name(r, m, False), "reserved": r.choice(RESERVED)}

    def _g_add_obs(self, r, m):
        return {"obs": self._gen_obs(r)}

    def _g_sort(self, r, m):
        return {"chrono": r.random() < 0.25}

    def _g_set_obs(self, r, m):
        return {"obs": self._gen_obs(r), "i": r.randrange(64), "api": r.choice(["setitem", "setObs"])}

    def _g_fork_reverse(self, r, m):
        return {"to": r.randrange(self.cfg["sessions"])}

    def _g_fork_span(self, r, m):
        st = self._g_span(r, m)
        if r.random() < 0.5:
            st["t1"], st["t2"] = [1970, 1, 1, 0, 0, 0, 0], [2099, 12, 31, 23, 59, 59, 999]      # whole track
        st["to"] = r.randrange(self.cfg["sessions"])
        return st

    def _g_edit_time(self, r, m):
        return {"i": r.randrange(64), "field": r.choice(["sec", "sec", "min", "ms"]), "delta": r.choice([1, 2, 5, -1])}

    def _g_insert_chrono(self, r, m):
        if not self._sorted(m) and not m["names"]:
            return {"op": "sort"}
        api = r.choice(["insertObs", "insertObs", "chrono"])
        o = self._gen_obs(r)
        if m["obs"] and r.random() < 0.6:      # before / equal-to / after existing instants
            ref = list(r.choice(m["obs"])["t"])
            d = r.choice([-1, 0, 0, 1])
            ref[5] = max(0, min(59, ref[5] + d))
            o[3] = ref
        return {"obs": o, "api": api}

    def _g_insert_at(self, r, m):
        return {"obs": self._gen_obs(r), "i": r.randrange(64)}

    def _g_remove_list(self, r, m):
        n = max(1, len(m["obs"]))
        k = r.randint(1, n)
        return {"idx": sorted(r.sample(range(n), k), reverse=r.random() < 0.5)}

    def _g_remove_obs(self, r, m):
        return {"i": r.randrange(64)}

    def _g_remove_first(self, r, m):
        return {}

    def _g_remove_last(self, r, m):
        return {}

    def _g_extract(self, r, m):
        return {"i": r.randrange(64), "j": r.randrange(64), "neg": r.random() < 0.2}

    def _g_span(self, r, m):
        def inst():
            k = r.randrange(-1, self.cfg["n_instants"] * 7 + 2)
            k = max(k, 0)
            return self._instant(k)
        return {"t1": inst(), "t2": inst()}

    def _g_sort_radix(self, r, m):
        return {}

    def _g_fork_concat(self, r, m):
        self.rtagc = getattr(self, "rtagc", 0) + 300
        return {"other": r.randrange(self.cfg["sessions"]), "to": r.randrange(self.cfg["sessions"]),
                "how": r.choice(["plus", "plus", "first", "mod2"]), "tag0": self.rtagc - 300}

    def _g_fork_derived(self, r, m):
        return {"to": r.randrange(self.cfg["sessions"]),
                "how": r.choice(["plus_empty", "plus_empty", "extract_all", "gt0", "lt0", "mod1", "slice_all", "mod2"])}

    def _g_fork_simplify(self, r, m):
        return {"to": r.randrange(self.cfg["sessions"]), "tol": r.choice([0.001, 0.5, 5.0]), "mode": r.choice([1, 1, 2])}

    def _g_describe(self, r, m):
        return {"how": r.choice(["str", "summary", "print", "len", "duration"])}

    def _g_remove_by_time(self, r, m):
        return {"idx": [r.randrange(64) for _ in range(r.choice([1, 1, 2, 3]))]}

    def _g_set_obs_list(self, r, m):
        return {"obs": [self._gen_obs(r) for _ in range(r.choice([0, 1, 2, 5]))]}

    def _g_via(self, r, m):
        self.rtagc = getattr(self, "rtagc", 0) + 300
        return {"kind": r.choice(["resample_t", "resample_s", "mul2", "pow", "make_odd", "make_even", "loop_add",
                                  "increment_time", "set_order", "loop", "loop", "idle_begin", "idle_begin", "idle_end"]),
                "delta": r.choice([1, 2, 0.5, 7]), "idle": r.choice([0.5, 5.0, 50.0]), "alias": r.random() < 0.5, "n": r.choice([2, 3, 5, 9]), "to": r.randrange(self.cfg["sessions"]),
                "tag0": self.rtagc - 300}

    def _g_segment(self, r, m):
        return {"in1": self._pick_input(r, m), "out": self._pick_name(r, m), "thr": r.choice([0.0, 2.0, 10.5, 40.0, 1000.0])}

    def _g_neighbour(self, r, m):
        return {"what": r.choice(["bbox", "centroid", "length", "compare_nn", "compare_hausdorff", "track_constraint", "time_constraint", "plot", "first_copy", "coords", "kalman_refused", "cut_and_select", "noise_refused"]), "other": r.randrange(self.cfg["sessions"])}

    def _g_neighbour4(self, r, m):
        return self._g_neighbour(r, m)

    def _g_neighbour17(self, r, m):
        return self._g_neighbour(r, m)

    def _g_profile(self, r, m):
        return {"template": r.choice(["SPATIAL_SPEED_PROFIL", "TEMPORAL_SPEED_PROFIL", "SPATIAL_ALTI_PROFIL"]),
                "refused": r.random() < 0.4}

    def _g_find_stops(self, r, m):
        return {"spatial": r.choice([1.0, 5.0, 20.0]), "temporal": r.choice([1, 3, 60])}

    def _g_idle(self, r, m):
        st = self._g_via(r, m)
        st["kind"] = r.choice(["idle_begin", "idle_begin", "idle_end"])
        return st

    def _g_span_track(self, r, m):
        return {"other": r.randrange(self.cfg["sessions"])}

    def _g_concat(self, r, m):
        return {"other": r.randrange(self.cfg["sessions"]), "iadd": r.random() < 0.3}

    def _g_mod_n(self, r, m):
        return {"n": r.randint(1, 6)}

    def _g_mod_pattern(self, r, m):
        if self.userpat and r.random() < 0.4:
            # the pattern is a constant of the user's program: the very same list object again
            return {"pattern": list(r.choice(sorted(self.userpat))), "same": True}
        return {"pattern": [r.random() < 0.5 for _ in range(r.randint(1, 6))], "same": r.random() < 0.6}

    def _g_gt(self, r, m):
        return {"n": r.randrange(64)}

    def _g_lt(self, r, m):
        return {"n": r.randrange(64)}

    def _g_slice(self, r, m):
        def b():
            return None if r.random() < 0.25 else r.randint(-20, 20)
        return {"i": b(), "j": b(), "k": r.choice([None, None, 1, 2, 3, -1, -2])}

    def _g_pop_obs(self, r, m):
        return {"i": r.randrange(64)}

    def _g_transform(self, r, m):
        self.rtagc = getattr(self, "rtagc", 0) + 300
        return {"kind": r.choice(["shift_default", "shift_default", "shift_to", "translate", "scale", "rotate"]),
                "i": r.randrange(64), "tx": r.choice([1.0, -2.5, 100.0]), "ty": r.choice([0.0, 3.0]),
                "h": r.choice([2.0, 0.5, 3.0]), "tag0": self.rtagc - 300}

    def _g_fork_noise(self, r, m):
        self.rtagc = getattr(self, "rtagc", 0) + 300
        return {"to": r.randrange(self.cfg["sessions"]), "mode": r.choice(["linear", "circular", "euclidian"]),
                "sigma": r.choice([0.5, 2.0]), "scope": r.choice([None, 5.0, 50.0]), "seed": r.randrange(10 ** 6),
                "tag0": self.rtagc - 300}

    def _g_add_seconds(self, r, m):
        return {"sec": r.choice([30, 3600, 86400, -30, 86400 * 20, 1])}

    def _g_speed_smoothed(self, r, m):
        return {"width": r.choice([1, 2, 3, 40, 100])}

    def _g_coll_speed(self, r, m):
        return {}

    def _g_speed_direct(self, r, m):
        return {}

    def _g_ds(self, r, m):
        return {"how": r.choice(["algo", "algo", "diff"])}

    def _g_abs_curv(self, r, m):
        if "abs_curv" in m["names"] and r.random() < 0.5:
            return {"op": "remove", "name": "abs_curv"}      # so that the next call recomputes
        return {}

    def _g_speed(self, r, m):
        if "speed" in m["names"] and r.random() < 0.5:
            return {"op": "remove", "name": "speed"}
        return {}

    # ------------------------------------------------------------ real objects
    def _mk_obs(self, o):
        from tracklib.core import Obs, ENUCoords, ObsTime
        if self.cfg.get("zones"):
            # fixes recorded by devices set to different time zones: the zone is carried, comparisons are on the fields
            zone = int(round(o[2] * 2 ** 24)) % 3 - 1
            return Obs(ENUCoords(o[0], o[1], o[2]), ObsTime(*(list(o[3]) + [zone])))
        if self.cfg.get("np_time"):
            # timestamps built from the columns of a numpy array: the fields are numpy integers
            import numpy
            return Obs(ENUCoords(o[0], o[1], o[2]), ObsTime(*[numpy.int64(v) for v in o[3]]))
        return Obs(ENUCoords(o[0], o[1], o[2]), ObsTime(*o[3]))

    def _sess(self, st):
        s = st.get("s", 0)
        if s not in self.model:
            raise Skip()
        if self.model[s].get("dup_obs") and st.get("op") not in DUP_SAFE_OPS:
            raise Skip()
        if self.model[s].get("loose_rows") and st.get("op") not in LOOSE_OK_OPS:
            raise Skip()
        return self.real[s], self.model[s]

    # ----------------------------------------------------------------- oracles
    def _check_track(self, prop, s, where):
        """(i)-(iv) of DESIGN.md §4 C01 for one session.  Reading the real track
        is real tracklib code: an exception there is a violation (the table
        cannot be read), not a harness error."""
        try:
            return self._check_track_inner(prop, s, where)
        except HarnessError:
            raise
        except Exception as e:  # noqa: BLE001
            import traceback
            tb = traceback.extract_tb(e.__traceback__)
            if not any("tracklib" in f.filename for f in tb):
                raise
            return self.fail(prop, "table.unreadable", "%s: reading the track of session %d raised %s: %s"
                             % (where, s, type(e).__name__, e), "readable feature table", repr(e))

    def _check_track_inner(self, prop, s, where):
        t, m = self.real[s], self.model[s]
        n = len(m["obs"])
        if t.size() != n:
            return self.fail(prop, "table.size", "%s: number of observations of session %d" % (where, s),
                             n, t.size())
        listed = t.getListAnalyticalFeatures()
        if sorted(listed) != sorted(m["names"]) or len(set(listed)) != len(listed):
            return self.fail(prop, "table.names", "%s: listed features of session %d" % (where, s),
                             sorted(m["names"]), listed)
        hidden = [x for x in listed if x.startswith("#")]
        if hidden:
            return self.fail(prop, "table.temporaries", "%s: evaluator temporaries remain listed" % where,
                             [], hidden)
        for i, o in enumerate(m["obs"]):
            ro = t.getObs(i)
            if (len(ro.features) < len(m["names"])) if m.get("loose_rows") else (len(ro.features) != len(m["names"])):
                return self.fail(prop, "table.width", "%s: observation %d of session %d carries %d values for %d "
                                 "listed features" % (where, i, s, len(ro.features), len(m["names"])),
                                 len(m["names"]), len(ro.features))
            p = ro.position
            if not (feq(p.getX(), o["x"]) and feq(p.getY(), o["y"]) and feq(p.getZ(), o["z"])):
                return self.fail(prop, "table.position", "%s: position of observation %d of session %d" % (where, i, s),
                                 [o["x"], o["y"], o["z"]], [p.getX(), p.getY(), p.getZ()])
            ts = ro.timestamp
            got = [ts.year, ts.month, ts.day, ts.hour, ts.min, ts.sec, ts.ms]
            if got != list(o["t"]):
                return self.fail(prop, "table.timestamp", "%s: timestamp of observation %d of session %d" % (where, i, s),
                                 list(o["t"]), got)
        if n:
            # the other documented ways of reading the sequence (C04 observe_at): list, iteration,
            # coordinate / time vectors
            tags = [o["z"] for o in m["obs"]]
            for how, got in (("getObsList()", [o.position.getZ() for o in t.getObsList()]),
                             ("iteration", [o.position.getZ() for o in t]),
                             ("getZ()", list(t.getZ()))):
                if got != tags:
                    return self.fail(prop, "table.sequence", "%s: observations of session %d read through %s"
                                     % (where, s, how), tags, got)
            gt = [[ts.year, ts.month, ts.day, ts.hour, ts.min, ts.sec, ts.ms] for ts in t.getTimestamps()]
            if gt != [list(o["t"]) for o in m["obs"]]:
                return self.fail(prop, "table.timestamp", "%s: getTimestamps() of session %d" % (where, s),
                                 [list(o["t"]) for o in m["obs"]], gt)
            absT = [abs_seconds(o["t"]) for o in m["obs"]]
            gT = list(t.getT())
            if len(gT) != n or any(abs(a - b) > 1e-6 for a, b in zip(gT, absT)):
                # the conversion to seconds is no claimed property's subject (its effect on the
                # speeds is judged by the speed oracle of C17): recorded, not judged
                self.stats["note:getT_differs"] += 1
                self.note("%s: getT() of session %d differs from the calendar arithmetic of the model" % (where, s))
            strictly = all(absT[i] < absT[i + 1] for i in range(n - 1))
            if bool(t.isSorted()) != strictly:
                return self.fail(prop, "table.sequence", "%s: isSorted() of session %d (strictly increasing "
                                 "timestamps)" % (where, s), strictly, t.isSorted())
            if not (leq(list(t.getX()), [o["x"] for o in m["obs"]]) and leq(list(t.getY()), [o["y"] for o in m["obs"]])):
                return self.fail(prop, "table.position", "%s: getX() / getY() of session %d" % (where, s),
                                 [[o["x"], o["y"]] for o in m["obs"]], [list(t.getX()), list(t.getY())])
        if m["names"]:
            names = list(m["names"])
            k = self.step_index % len(names)
            two = [names[k], names[(k + 1) % len(names)]]
            got = t.getAnalyticalFeatures(two)
            if len(got) != 2 or not all(leq(list(g), self._col(m, nm)) for g, nm in zip(got, two)):
                return self.fail(prop, "table.values", "%s: getAnalyticalFeatures(%r) of session %d" % (where, two, s),
                                 jsonable([self._col(m, nm) for nm in two]), jsonable([list(g) for g in got]))
            if any(not t.hasAnalyticalFeature(nm) for nm in names):
                return self.fail(prop, "table.names", "%s: hasAnalyticalFeature of a listed name is false" % where,
                                 names, [nm for nm in names if not t.hasAnalyticalFeature(nm)])
        for name in m["names"]:
            got = t[name]
            exp = self._col(m, name)
            if not leq(got, exp):
                return self.fail(prop, "table.values", "%s: values read under %r in session %d" % (where, name, s),
                                 jsonable(exp), jsonable(got))
            if n:
                i = self.step_index % n          # the per-observation read API, one rotating index per step
                g1, g2 = t[name, i], t.getObsAnalyticalFeature(name, i)
                if not (feq(g1, exp[i]) and feq(g2, exp[i])):
                    return self.fail(prop, "table.values", "%s: value read under [%r, %d] in session %d"
                                     % (where, name, i, s), jsonable(exp[i]), jsonable([g1, g2]))
        return None

    def _check_all(self, prop, where):
        for s in sorted(self.model):
            if self.violations:
                return
            self._check_track(prop, s, where)
        # tracks returned earlier by the slicing operators: their feature table is a copy
        # taken when they were created and must not follow later changes of the source
        for s, d in sorted(self.derived.items()):
            if self.violations:
                return
            listed = d["track"].getListAnalyticalFeatures()
            if sorted(listed) != sorted(d["names"]):
                self.fail("C04", "derived.table_aliased", "%s: the feature table of the track returned earlier by "
                          "%s (session %d) changed with its source" % (where, d["where"], s), sorted(d["names"]),
                          listed)

    def _check_derived(self, prop, res, exp_obs, names, where, check_feats=True):
        if res is None or not hasattr(res, "getObs"):
            return self.fail(prop, "derived.type", where + ": result is not a track", "Track", repr(type(res)))
        if res.size() != len(exp_obs):
            got = [res.getObs(i).position.getZ() for i in range(res.size())]
            return self.fail(prop, "derived.selection", where + ": selected observations (by tag)",
                             [o["z"] for o in exp_obs], got)
        got = [res.getObs(i).position.getZ() for i in range(res.size())]
        if got != [o["z"] for o in exp_obs]:
            return self.fail(prop, "derived.selection", where + ": selected observations (by tag)",
                             [o["z"] for o in exp_obs], got)
        for i, o in enumerate(exp_obs):
            ro = res.getObs(i)
            ts = ro.timestamp
            if [ts.year, ts.month, ts.day, ts.hour, ts.min, ts.sec, ts.ms] != list(o["t"]) or \
                    not (feq(ro.position.getY(), o["y"]) and feq(ro.position.getX(), o["x"])):
                return self.fail(prop, "derived.obs", where + ": observation %d of the result" % i,
                                 [o["x"], o["y"], list(o["t"])],
                                 [ro.position.getX(), ro.position.getY(),
                                  [ts.year, ts.month, ts.day, ts.hour, ts.min, ts.sec, ts.ms]])
        if check_feats:
            listed = res.getListAnalyticalFeatures()
            if sorted(listed) != sorted(names):
                return self.fail(prop, "derived.names", where + ": feature table of the result", sorted(names), listed)
            if exp_obs:
                for nm in names:
                    g = res[nm]
                    e = [o["f"][nm] for o in exp_obs]
                    if not leq(g, e):
                        return self.fail(prop, "derived.values", where + ": values of %r in the result" % nm,
                                         jsonable(e), jsonable(g))
        return None

    def _unexpected(self, prop, exc, where):
        kind = "exit" if isinstance(exc, SystemExit) else "raised"
        self.fail(prop, "call." + kind, "%s: valid request ended in %s: %s" % (where, type(exc).__name__, exc),
                  "normal return", repr(exc))
        return kind

    # ------------------------------------------------------------ session steps
    def op_new_track(self, st):
        from tracklib.core import Track
        s = st.get("s", 0)
        t = Track([self._mk_obs(o) for o in st["obs"]], 1, s)
        m = {"obs": [{"x": o[0], "y": o[1], "z": o[2], "t": list(o[3]), "f": {}} for o in st["obs"]],
             "names": [], "fresh": {}, "geo": 0}
        self.real[s], self.model[s] = t, m
        self.derived.pop(s, None)
        for nm, vals in (st.get("feats") or {}).items():
            if len(vals) != len(m["obs"]) or not m["obs"]:
                continue
            _, exc = self.call(t.createAnalyticalFeature, nm, list(vals))
            if exc is not None:
                return self._unexpected("C01", exc, "createAnalyticalFeature")
            self._setcol(m, nm, list(vals))
        self._check_all("C01", "new_track")
        self.observed(len(st["obs"]))

    def op_fork(self, st):
        t, m = self._sess(st)
        to = st["to"]
        if (st.get("s", 0) + to + self.step_index) % 3 == 0:
            # the copy is taken through a collection: TrackCollection([t]).copy() copies its tracks
            from tracklib.core import TrackCollection
            coll, exc = self.call(lambda: TrackCollection([t]).copy())
            cp = coll.getTrack(0) if exc is None else None
            self.probe("copy_through_a_collection")
        else:
            cp, exc = self.call(t.copy)
        if exc is not None:
            return self._unexpected("C01", exc, "copy")
        self.real[to], self.model[to] = cp, copy.deepcopy(m)
        self.derived.pop(to, None)
        self.probe("fork")
        self._check_all("C01", "fork")

    # ------------------------------------------------------------------ C01 ops
    def _expand(self, v, n):
        return list(v) if isinstance(v, list) else [v] * n

    def _value_ok(self, st, n):
        v = st["value"]
        if isinstance(v, list) and len(v) != n:
            raise Skip()
        return v

    def op_create(self, st):
        t, m = self._sess(st)
        n = len(m["obs"])
        if n == 0 or st["name"] in RESERVED:
            raise Skip()
        v = self._value_ok(st, n)
        existed = st["name"] in m["names"]
        if st.get("default_init"):
            v = 0.0                                        # documented default initial value
            _, exc = self.call(t.createAnalyticalFeature, st["name"])
        else:
            _, exc = self.call(t.createAnalyticalFeature, st["name"], copy.copy(v))
        if exc is not None:
            return self._unexpected("C01", exc, "createAnalyticalFeature")
        if existed:
            self.probe("create_existing_is_noop")
        else:
            if m.get("deleted", {}).get(st["name"]):
                self.probe("recreate_after_delete")
            self._setcol(m, st["name"], self._expand(v, n))
        self._check_all("C01", "create")
        self.observed([st["name"], existed])

    def op_update(self, st):
        t, m = self._sess(st)
        n = len(m["obs"])
        if n == 0 or st["name"] not in m["names"]:
            raise Skip()
        v = self._value_ok(st, n)
        _, exc = self.call(t.updateAnalyticalFeature, st["name"], copy.copy(v))
        if exc is not None:
            return self._unexpected("C01", exc, "updateAnalyticalFeature")
        self._setcol(m, st["name"], self._expand(v, n))
        self._check_all("C01", "update")

    def _remove(self, st, via_setitem):
        t, m = self._sess(st)
        name = st["name"]
        if name not in m["names"]:
            raise Skip()
        real_listed = t.getListAnalyticalFeatures()
        if name in real_listed and real_listed.index(name) != len(real_listed) - 1:
            self.probe("delete_of_non_last_column")
        if via_setitem:
            _, exc = self.call(t.__setitem__, name, "#DELETE")
        else:
            _, exc = self.call(t.removeAnalyticalFeature, name)
        if exc is not None:
            return self._unexpected("C01", exc, "removeAnalyticalFeature")
        self._delcol(m, name)
        m.setdefault("deleted", {})[name] = True
        m["ndel"] = m.get("ndel", 0) + 1
        if m["ndel"] >= 3 and self.step_index >= 20:
            self.probe("long_history_with_3_deletions")
        self._check_all("C01", "remove")

    def op_remove(self, st):
        return self._remove(st, False)

    def op_setitem_delete(self, st):
        return self._remove(st, True)

    def op_setitem(self, st):
        t, m = self._sess(st)
        n = len(m["obs"])
        if n == 0 or st["name"] in RESERVED:
            raise Skip()
        v = self._value_ok(st, n)
        _, exc = self.call(t.__setitem__, st["name"], copy.copy(v))
        if exc is not None:
            return self._unexpected("C01", exc, "track[name] = value")
        if st["name"] not in m["names"] and m.get("deleted", {}).get(st["name"]):
            self.probe("recreate_after_delete")
        self._setcol(m, st["name"], self._expand(v, n))
        self._check_all("C01", "setitem")

    def _faulty(self, st, f):
        """User-supplied callable that raises at its k-th invocation (armed fault
        `callable_raises`): the in-memory counterpart of an I/O error at the k-th write."""
        fault = st.get("fault")
        if not fault:
            return f
        self.stats["fault_armed:callable_raises"] += 1
        state = {"n": 0, "fired": False}
        self._fault_state = state

        def g(*a):
            state["n"] += 1
            if state["n"] == fault["at"] and not state["fired"]:
                state["fired"] = True
                raise InjectedCallableError("user callable failed at invocation %d" % fault["at"])
            return f(*a)
        g.__name__ = getattr(f, "__name__", "g")
        return g

    def _after_callable_fault(self, st, t, m, out, exc, where):
        """Outcome of a call whose callable raised: the exception must be the injected one (or
        the call absorbed it); the output column is adopted, everything else is judged."""
        state = getattr(self, "_fault_state", None) or {"fired": False}
        self._fault_state = None
        if not state["fired"]:
            self.stats["fault_not_reached:callable_raises"] += 1
            return False
        self.stats["fault_fired:callable_raises"] += 1
        if exc is not None and not isinstance(exc, InjectedCallableError):
            self._unexpected("C01", exc, where + " (after the user callable raised)")
            return True
        if exc is None:
            self.probe("fault_swallowed_by_call")
        listed = t.getListAnalyticalFeatures()
        if out in listed:
            col, e2 = self.call(t.getAnalyticalFeature, out)
            if e2 is not None or len(col) != len(m["obs"]):
                self.fail("C01", "table.unreadable", where + ": after the user callable raised, %r cannot be read "
                          "back as one value per observation" % out, len(m["obs"]),
                          repr(e2) if e2 is not None else len(col))
                return True
            self._setcol(m, out, list(col))
            m["fresh"].pop(out, None)
        self.probe("user_callable_raised_inside_a_feature_operation")
        self._check_all("C01", where + " (the user callable raised: the table must stay aligned, nothing else may change)")
        return True

    def _func(self, st, m):
        base = st["base"]
        if st["func"] == "lazy_speed":
            # an algorithm that needs the speeds and computes them on first use
            def f(track, i):
                if not track.hasAnalyticalFeature("speed"):
                    track.estimate_speed()
                return base + i
            return f, [base + i for i in range(len(m["obs"]))]
        if st["func"] == "running":
            # a running total: the algorithm reads the value it stored for the previous fix
            name = st["name"]
            b = base % 13

            def f(track, i):
                return (track.getObsAnalyticalFeature(name, i - 1) if i > 0 else 0.0) + b + i
            exp, tot = [], 0.0
            for i in range(len(m["obs"])):
                tot = tot + b + i
                exp.append(tot)
            return f, exp
        if st["func"] == "affine":
            return (lambda track, i: base + i), [base + i for i in range(len(m["obs"]))]
        # IndexError on the last observation: the documented NaN path of addAnalyticalFeature
        xs = [o["x"] for o in m["obs"]]
        return (lambda track, i: track.getObs(i + 1).position.getX() + base), \
            [xs[i + 1] + base if i + 1 < len(xs) else NAN for i in range(len(xs))]

    def op_setitem_func(self, st):
        t, m = self._sess(st)
        if st.get("coord") and len(m["obs"]):
            # track["x"] = function / track["y"] = function: the coordinate is assigned, no feature is created
            c = st["coord"]
            base = st["base"] % 97
            f = lambda track, i: base + 0.5 * i          # noqa: E731
            _, exc = self.call(t.__setitem__, c, f)
            if exc is not None:
                return self._unexpected("C01", exc, "track[%r] = function" % c)
            for i, o in enumerate(m["obs"]):
                o[c] = base + 0.5 * i
            m["geo"] += 1
            self.probe("coordinate_assigned_from_a_function")
            self._check_all("C01", "track[%r] = function" % c)
            return
        if len(m["obs"]) == 0 or st["name"] in RESERVED:
            raise Skip()
        f, exp = self._func(st, m)
        _, exc = self.call(t.__setitem__, st["name"], self._faulty(st, f))
        if st.get("fault") and self._after_callable_fault(st, t, m, st["name"], exc, "track[name] = function"):
            return "fault"
        if exc is not None:
            return self._unexpected("C01", exc, "track[name] = function")
        self._setcol(m, st["name"], exp)
        self._check_all("C01", "setitem_func")

    def op_add_af(self, st):
        t, m = self._sess(st)
        if len(m["obs"]) == 0 or st["name"] in RESERVED:
            raise Skip()
        lazy = st["func"] == "lazy_speed"
        if lazy and (len(m["obs"]) < 2 or "speed" in m["names"] or "ds" in m["names"] or st["name"] == "speed"
                     or m.get("dup_obs") or m.get("loose_rows") or not self._sorted(m)):
            raise Skip()
        f, exp = self._func(st, m)
        if st.get("byname"):
            f.__name__ = st["name"]           # documented default: the feature is named after the function
            rv, exc = self.call(t.addAnalyticalFeature, self._faulty(st, f))
        else:
            rv, exc = self.call(t.addAnalyticalFeature, self._faulty(st, f), st["name"])
        if lazy and "speed" in t.getListAnalyticalFeatures():
            # the speeds the algorithm computed on the way are a feature of the track from now on
            got = list(t.getAnalyticalFeature("speed"))
            self._setcol(m, "speed", got)
            m["fresh"]["speed"] = m["geo"]
            self.probe("user_algorithm_created_a_feature_on_the_way")
            want = self._def_speed(m)
            if len(got) != len(want) or any(not close(a, b) for a, b in zip(got, want)):
                self.fail("C17", "speed.definition", "speeds computed by estimate_speed() inside a user algorithm",
                          jsonable(want), jsonable(got))
                return
        if st.get("fault") and self._after_callable_fault(st, t, m, st["name"], exc, "addAnalyticalFeature"):
            return "fault"
        if exc is not None:
            return self._unexpected("C01", exc, "addAnalyticalFeature")
        self._setcol(m, st["name"], exp)
        if not leq(rv, exp):
            self.fail("C01", "return.values", "addAnalyticalFeature returned other values than it stored",
                      jsonable(exp), jsonable(rv))
        self._check_all("C01", "add_af")

    def op_coll_feature(self, st):
        """The collection-level wrappers: TrackCollection.operate(expression) and
        TrackCollection.addAnalyticalFeature(function, name) do to every track of the collection what
        the method of the same name does to one."""
        from tracklib.core import TrackCollection
        out = st["out"]
        if out in RESERVED:
            raise Skip()
        sess = [s_ for s_ in sorted(self.model) if len(self.model[s_]["obs"]) >= 1 and not self.model[s_].get("dup_obs")
                and not self.model[s_].get("loose_rows") and not self.model[s_].get("linked")]
        if not sess or any(self.real[a] is self.real[b] for a in sess for b in sess if a < b):
            raise Skip()
        coll = TrackCollection([self.real[s_] for s_ in sess])
        if st.get("twice"):
            coll.addTrack(self.real[sess[0]])       # the same track twice in the collection: written twice, same values
            self.probe("collection_with_the_same_track_twice")
        if st["how"] == "operate":
            lit = st["lit"]
            _, exc = self.call(coll.operate, "%s=idx*%s+x" % (out, self._lit(lit)))
            exps = {s_: [i * float(lit) + o["x"] for i, o in enumerate(self.model[s_]["obs"])] for s_ in sess}
        else:
            base = st["base"]
            _, exc = self.call(coll.addAnalyticalFeature, (lambda track, i: base + 2.0 * i), out)
            exps = {s_: [base + 2.0 * i for i in range(len(self.model[s_]["obs"]))] for s_ in sess}
        if exc is not None:
            return self._unexpected("C01", exc, "TrackCollection.%s" % st["how"])
        for s_ in sess:
            self._setcol(self.model[s_], out, exps[s_])
            self.model[s_]["fresh"].pop(out, None)
        self.probe("feature_written_through_a_collection")
        if any(len(self.model[s_]["obs"]) == 1 for s_ in sess):
            self.probe("collection_with_a_track_of_one_observation")
        self._check_all("C01", "TrackCollection.%s (every track of the collection gets the feature)" % st["how"])

    def op_setobs(self, st):
        t, m = self._sess(st)
        n = len(m["obs"])
        if n == 0 or st["name"] not in m["names"]:
            raise Skip()
        i = st["i"] % n
        key = (i, st["name"]) if st.get("swap") else (st["name"], i)
        _, exc = self.call(t.__setitem__, key, st["value"])
        if exc is not None:
            return self._unexpected("C01", exc, "track[name, i] = value")
        m["obs"][i]["f"][st["name"]] = st["value"]
        got, exc = self.call(t.__getitem__, key)
        if exc is not None or not feq(got, st["value"]):
            self.fail("C01", "return.values", "track[name, i] does not read back the value just written",
                      st["value"], jsonable(got) if exc is None else repr(exc))
        self._check_all("C01", "setobs")

    # -- operator objects ---------------------------------------------------------
    def _m_unary(self, opr, x):
        n = len(x)
        if opr == "IDENTITY":
            return list(x)
        if opr == "INVERTER":
            return [-v for v in x]
        if opr == "SQUARE":
            return [v * v for v in x]
        if opr == "RECTIFIER":
            return [abs(v) if v == v else NAN for v in x]
        if opr == "SHIFT_RIGHT":
            return [NAN if i - 1 < 0 else x[i - 1] for i in range(n)]
        if opr == "SHIFT_LEFT":
            return [NAN if i + 1 >= n else x[i + 1] for i in range(n)]
        if opr == "DIFFERENTIATOR":
            return [NAN if i == 0 else x[i] - x[i - 1] for i in range(n)]
        if opr == "INTEGRATOR":
            out = [0] * n
            for i in range(1, n):
                out[i] = out[i - 1] + x[i]
            return out
        raise HarnessError(opr)

    def _m_binary(self, opr, x, y):
        if opr == "ADDER":
            return [a + b for a, b in zip(x, y)]
        if opr == "SUBSTRACTER":
            return [a - b for a, b in zip(x, y)]
        if opr == "MULTIPLIER":
            return [a * b for a, b in zip(x, y)]
        if opr == "ABOVE":
            return [0.0 + (a > b) for a, b in zip(x, y)]
        if opr == "BELOW":
            return [0.0 + (a < b) for a, b in zip(x, y)]
        raise HarnessError(opr)

    def _m_scalar(self, opr, x, k):
        n = len(x)
        if opr == "SCALAR_ADDER":
            return [v + k for v in x]
        if opr == "SCALAR_MULTIPLIER":
            return [v * k for v in x]
        if opr == "SCALAR_REV_SUBSTRACTER":
            return [k - v for v in x]
        if opr == "SHIFT":
            return [NAN if (i - k < 0 or i - k >= n) else x[i - k] for i in range(n)]
        raise HarnessError(opr)

    def _input_ok(self, m, name):
        """Readable and numeric (arithmetic on text-valued features is the caller's error)."""
        if name in ("x", "idx", "y"):
            return True
        return name in m["names"] and all(isinstance(v, (int, float)) and not isinstance(v, bool)
                                          and (v != v or abs(v) < 1e15)
                                          for v in self._col(m, name))

    def op_operate(self, st):
        from tracklib.core import Operator
        t, m = self._sess(st)
        n = len(m["obs"])
        opr = st["opr"]
        if n == 0 or not self._input_ok(m, st["in1"]):
            raise Skip()
        out = st.get("out") or st["in1"]
        if out in RESERVED:
            raise Skip()
        x = self._col(m, st["in1"])
        real_op = getattr(Operator, opr)
        if opr in UNARY:
            exp = self._m_unary(opr, x)
            args = (real_op, st["in1"]) if st.get("out") is None else (real_op, st["in1"], out)
        elif opr in BINARY:
            if not self._input_ok(m, st["in2"]):
                raise Skip()
            exp = self._m_binary(opr, x, self._col(m, st["in2"]))
            args = (real_op, st["in1"], st["in2"]) if st.get("out") is None else (real_op, st["in1"], st["in2"], out)
        else:
            exp = self._m_scalar(opr, x, st["arg"])
            args = (real_op, st["in1"], st["arg"]) if st.get("out") is None else (real_op, st["in1"], st["arg"], out)
        if out == st["in1"] or out == st.get("in2"):
            self.probe("operator_output_is_input")
        rv, exc = self.call(t.op if self.step_index % 5 == 0 else t.operate, *args)      # op is the documented alias
        if exc is not None:
            return self._unexpected("C01", exc, "operate(Operator.%s)" % opr)
        self._setcol(m, out, exp)
        if rv is not None and not leq(list(rv), exp):
            self.fail("C01", "return.values", "operate(Operator.%s) returned other values than the definition" % opr,
                      jsonable(exp), jsonable(list(rv)))
        self._check_all("C01", "operate " + opr)
        self.observed(jsonable(exp))

    def op_operate_list(self, st):
        """operate(Operator.X, [in...], ..., [out...]): the documented list form; the pairs
        are processed in order, so a later pair reads what an earlier one wrote."""
        from tracklib.core import Operator
        t, m = self._sess(st)
        n = len(m["obs"])
        ins, outs = list(st["ins"]), st.get("outs")
        if n == 0 or not ins:
            raise Skip()
        if outs is None:
            outs = list(ins)
        if len(outs) != len(ins) or any(o in RESERVED for o in outs):
            raise Skip()
        # every input must be readable when its pair is processed
        avail = set(nm for nm in list(m["names"]) + ["x", "y", "idx"] if self._input_ok(m, nm))
        ins2 = st.get("ins2")
        for k, i1 in enumerate(ins):
            if i1 not in avail or (ins2 and ins2[k] not in avail):
                raise Skip()
            avail.add(outs[k])
        real_op = getattr(Operator, st["opr"])
        if st["kind"] == "u":
            args = (real_op, list(ins)) if st.get("outs") is None else (real_op, list(ins), list(outs))
        elif st["kind"] == "b":
            args = (real_op, list(ins), list(ins2)) if st.get("outs") is None else \
                (real_op, list(ins), list(ins2), list(outs))
        else:
            args = (real_op, list(ins), st["arg"]) if st.get("outs") is None else \
                (real_op, list(ins), st["arg"], list(outs))
        _, exc = self.call(t.operate, *args)
        if exc is not None:
            return self._unexpected("C01", exc, "operate(Operator.%s, lists)" % st["opr"])
        for k, i1 in enumerate(ins):
            x = self._col(m, i1)
            if st["kind"] == "u":
                exp = self._m_unary(st["opr"], x)
            elif st["kind"] == "b":
                exp = self._m_binary(st["opr"], x, self._col(m, ins2[k]))
            else:
                exp = self._m_scalar(st["opr"], x, st["arg"])
            self._setcol(m, outs[k], exp)
        self.probe("operator_applied_to_lists_of_features")
        self._check_all("C01", "operate %s on lists" % st["opr"])

    def op_apply(self, st):
        from tracklib.core import Operator
        t, m = self._sess(st)
        if len(m["obs"]) == 0 or not self._input_ok(m, st["in1"]) or st["out"] in RESERVED:
            raise Skip()
        f = {"half": lambda v: v * 0.5, "plus7": lambda v: v + 7, "neg": lambda v: -v,
             # a function that fills the gaps (NaN) the library itself produces (first value of D{a}, shifted ends)
             "fillgap": lambda v: -1.0 if v != v else v + 1}[st["f"]]
        if st["f"] == "fillgap" and not self._numeric(m, st["in1"]):
            raise Skip()
        exp = [f(v) for v in self._col(m, st["in1"])]
        if st["f"] == "fillgap" and any(v != v for v in self._col(m, st["in1"])):
            self.probe("user_function_applied_to_a_gap")
        rv, exc = self.call(t.operate, Operator.APPLY, st["in1"], self._faulty(st, f), st["out"])
        if st.get("fault") and self._after_callable_fault(st, t, m, st["out"], exc, "operate(Operator.APPLY)"):
            return "fault"
        if exc is not None:
            return self._unexpected("C01", exc, "operate(Operator.APPLY)")
        self._setcol(m, st["out"], exp)
        self._check_all("C01", "apply")

    def op_aggregate(self, st):
        from tracklib.core import Operator
        t, m = self._sess(st)
        if st.get("ins"):
            return self._aggregate_list(st, t, m)
        return self._aggregate_one(st, t, m, st["in1"])

    def _aggregate_list(self, st, t, m):
        """operate(Operator.SUM, [names]): the list form of a non-void operator, one value per name."""
        from tracklib.core import Operator
        if len(m["obs"]) == 0 or any(not self._input_ok(m, nm) for nm in st["ins"]):
            raise Skip()
        exps = [self._aggregate_one(st, t, m, nm, model_only=True) for nm in st["ins"]]
        rv, exc = self.call(t.operate, getattr(Operator, st["opr"]), list(st["ins"]))
        if exc is not None:
            return self._unexpected("C01", exc, "operate(Operator.%s, %r)" % (st["opr"], st["ins"]))
        self.probe("aggregate_over_a_list_of_features")
        if not isinstance(rv, (list, tuple)) or len(rv) != len(exps) or \
                any(not feq(float(a), float(b)) for a, b in zip(rv, exps)):
            self.fail("C01", "return.values", "operate(Operator.%s) on the list %r" % (st["opr"], st["ins"]),
                      jsonable(exps), jsonable(list(rv) if isinstance(rv, (list, tuple)) else rv))
        self._check_all("C01", "aggregate over a list (read-only)")
        self.observed(jsonable([float(v) for v in exps]))

    def _aggregate_one(self, st, t, m, name, model_only=False):
        from tracklib.core import Operator
        if len(m["obs"]) == 0 or not self._input_ok(m, name):
            raise Skip()
        x = self._col(m, name)
        clean = [v for v in x if v == v]
        opr = st["opr"]
        if opr == "AVERAGER" and not clean:
            raise Skip()
        if opr in ("MIN", "MAX") and len(clean) != len(x):
            raise Skip()
        if opr == "SUM":
            exp = 0
            for v in clean:
                exp += v
        elif opr == "MIN":
            exp = min(x)
        elif opr == "MAX":
            exp = max(x)
        else:
            tot = 0
            for v in clean:
                tot += v
            exp = tot / len(clean)
        if model_only:
            return exp
        rv, exc = self.call(t.operate, getattr(Operator, opr), name)
        if exc is not None:
            return self._unexpected("C01", exc, "operate(Operator.%s)" % opr)
        if not feq(float(rv), float(exp)):
            self.fail("C01", "return.values", "operate(Operator.%s) on %r" % (opr, name), exp, rv)
        self._check_all("C01", "aggregate (read-only)")
        self.observed(jsonable(float(rv)))

    def _numeric(self, m, name):
        if name in ("x", "idx", "y"):
            return True
        return name in m["names"] and all(isinstance(v, (int, float)) and not isinstance(v, bool)
                                          for v in self._col(m, name))

    def op_operate_any(self, st):
        """Any other void operator object (unary, binary, scalar).  Its values are not
        modelled: the output column is adopted from the real track after the call.  What
        is judged is everything C01 says about the *table*: exactly the model's names plus
        the output, one value per observation, every other column / position / timestamp
        unchanged, no hidden scratch feature left listed -- also when the operator refuses
        values outside its domain (division by zero, square root of a negative number)."""
        from tracklib.core import Operator
        t, m = self._sess(st)
        n = len(m["obs"])
        opr = st["opr"]
        if n == 0 or not self._numeric(m, st["in1"]):
            raise Skip()
        out = st.get("out") or st["in1"]
        if out in RESERVED:
            raise Skip()
        real_op = getattr(Operator, opr)
        if opr == "CORRELATOR" and n > 40:
            raise Skip()
        if "POWER" in opr:
            # integer columns raised to integer powers are exact big-integer arithmetic: 823543 ** 823543
            # takes seconds and is no hang of the library; powers are applied to float columns only
            cols = [self._col(m, st["in1"])] + ([self._col(m, st["in2"])] if opr in ANY_BINARY and
                                                self._numeric(m, st.get("in2", "")) else [])
            if any(not isinstance(v, float) for c in cols for v in c) or (
                    opr in ANY_SCALAR and not isinstance(st.get("arg"), float)):
                raise Skip()
        if opr in ANY_UNARY:
            args = (real_op, st["in1"]) if st.get("out") is None else (real_op, st["in1"], out)
        elif opr in ANY_BINARY:
            if not self._numeric(m, st["in2"]):
                raise Skip()
            args = (real_op, st["in1"], st["in2"]) if st.get("out") is None else (real_op, st["in1"], st["in2"], out)
        else:
            args = (real_op, st["in1"], st["arg"]) if st.get("out") is None else (real_op, st["in1"], st["arg"], out)
        rv, exc = self.call(t.operate, *args)
        if exc is not None and not isinstance(exc, DOMAIN_ERRORS):
            return self._unexpected("C01", exc, "operate(Operator.%s)" % opr)
        listed, e2 = self.call(t.getListAnalyticalFeatures)
        if e2 is not None:
            return self._unexpected("C01", e2, "getListAnalyticalFeatures")
        col = None
        if out in listed:
            col, e2 = self.call(t.getAnalyticalFeature, out)
            if e2 is not None or len(col) != n:
                self.fail("C01", "table.unreadable", "operate(Operator.%s): output %r cannot be read back as one "
                          "value per observation" % (opr, out), n, repr(e2) if e2 is not None else len(col))
                return "raised"
            col = list(col)
            self._setcol(m, out, col)
            m["fresh"].pop(out, None)
        elif exc is None:
            self.fail("C01", "table.names", "operate(Operator.%s) returned normally but its output %r is not "
                      "listed" % (opr, out), out, listed)
            return
        if exc is None:
            if rv is not None and hasattr(rv, "__len__") and len(rv) == n and not leq(list(rv), col):
                self.fail("C01", "return.values", "operate(Operator.%s) returned other values than it stored" % opr,
                          jsonable(col), jsonable(list(rv)))
                return
            self.probe("unmodelled_operator_applied")
        else:
            self.probe("operator_refused_values_outside_its_domain")
            self.stats["fault_fired:domain_error"] += 1
        self._check_all("C01", "operate %s%s" % (opr, "" if exc is None else " (refused: %s)" % type(exc).__name__))
        self.observed([opr, None if exc is None else type(exc).__name__])
        return "ok" if exc is None else "domain"

    def op_aggregate_any(self, st):
        """Non-void operator objects (one number / one list out): read-only."""
        from tracklib.core import Operator
        t, m = self._sess(st)
        if len(m["obs"]) == 0 or not self._numeric(m, st["in1"]):
            raise Skip()
        opr = st["opr"]
        if opr in ANY_AGG_B:
            if not self._numeric(m, st["in2"]):
                raise Skip()
            if st.get("lists"):
                self.probe("binary_aggregate_over_lists_of_features")
                rv, exc = self.call(t.operate, getattr(Operator, opr), [st["in1"], st["in2"]], [st["in2"], st["in1"]])
            else:
                rv, exc = self.call(t.operate, getattr(Operator, opr), st["in1"], st["in2"])
        else:
            rv, exc = self.call(t.operate, getattr(Operator, opr), st["in1"])
        if exc is not None and not isinstance(exc, DOMAIN_ERRORS):
            return self._unexpected("C01", exc, "operate(Operator.%s)" % opr)
        self._check_all("C01", "operate %s (read-only)" % opr)
        self.observed([opr, None if exc is None else type(exc).__name__])
        return "ok" if exc is None else "domain"

    def op_biop(self, st):
        """bioperate: an expression over two tracks of equal size (b° is feature b of the second
        track); the result is a new feature of the first one, the second one is only read.  A
        refused request (unknown name) leaves both as they were."""
        t, m = self._sess(st)
        o = st["other"]
        if o not in self.model or o == st.get("s", 0):
            raise Skip()
        t2, m2 = self.real[o], self.model[o]
        n = len(m["obs"])
        if n == 0 or len(m2["obs"]) != n or m2.get("dup_obs") or m2.get("loose_rows"):
            raise Skip()
        a, b, out = st["a"], st["b"], st["out"]
        if not self._input_ok(m, a) or not self._input_ok(m2, b) or b not in m2["names"] or out in m["names"] \
                or out in RESERVED:
            raise Skip()
        fn = t.biop if st.get("alias") else t.bioperate
        if st.get("refused"):
            _, exc = self.call(fn, t2, "%s=%s°+zz9" % (out, b))
            self.stats["fault_fired:rejected_request"] += 1
            if exc is None:
                raise Skip()
            self.probe("two_track_expression_refused")
            self._check_all("C01", "refused bioperate (nothing may change on either track)")
            return "rejected"
        rv, exc = self.call(fn, t2, "%s=%s°+%s" % (out, b, a))
        if exc is not None:
            return self._unexpected("C01", exc, "bioperate")
        exp = [u + v for u, v in zip(self._col(m2, b), self._col(m, a))]
        self._setcol(m, out, exp)
        if rv is not None and not leq(list(rv), exp):
            self.fail("C01", "return.values", "bioperate returned other values than feature %r of the second track "
                      "plus feature %r of the first" % (b, a), jsonable(exp), jsonable(list(rv)))
            return
        self.probe("expression_over_two_tracks")
        self._check_all("C01", "bioperate")

    def op_correlator(self, st):
        """Binary operator object whose values are not modelled (adopted after the
        call); what is checked is that nothing else changes."""
        from tracklib.core import Operator
        t, m = self._sess(st)
        if len(m["obs"]) > 40:
            raise Skip()            # n shifted correlations of n values each: quadratic, not for the long tracks
        if len(m["obs"]) < 2 or st["in1"] not in m["names"] or st["in2"] not in m["names"] \
                or st["out"] in RESERVED or not self._input_ok(m, st["in1"]) or not self._input_ok(m, st["in2"]):
            raise Skip()
        for nm in (st["in1"], st["in2"]):
            col = self._col(m, nm)
            if any(v != v for v in col) or len(set(col)) < 2:
                raise Skip()                  # zero variance / NaN: division by zero is input-domain, not C01
        rv, exc = self.call(t.operate, Operator.CORRELATOR, st["in1"], st["in2"], st["out"])
        if exc is not None and not isinstance(exc, ArithmeticError):
            return self._unexpected("C01", exc, "operate(Operator.CORRELATOR)")
        # (an ArithmeticError is a refusal: variances of columns with wildly different magnitudes
        # underflow to zero; the table is judged all the same)
        if st["out"] in t.getListAnalyticalFeatures():
            self._setcol(m, st["out"], list(t[st["out"]]))
        self._check_all("C01", "correlator")
        if exc is not None:
            return "domain"

    # -- expressions ---------------------------------------------------------------
    def _lit(self, v):
        return repr(v) if isinstance(v, float) else str(v)

    def _tree_names(self, t):
        if t[0] in ("n", "g"):
            return [t[-1]]
        if t[0] in ("l", "v"):
            return []
        if t[0] == "f":
            return self._tree_names(t[2])
        return self._tree_names(t[2]) + self._tree_names(t[3])

    def _tree_text(self, t, bare, parent=None):
        """Text of the expression.  Every binary operand that is itself a binary node is put in
        parentheses, except (when `bare`) a product under a sum / difference, which ordinary
        precedence groups the same way."""
        k = t[0]
        if k == "n":
            return t[1]
        if k == "l":
            return self._lit(t[1])
        if k == "v":
            return t[1]
        if k == "g":
            return "%s{%s}" % (t[1], t[2])
        if k == "f":
            return "%s{%s}" % (t[1], self._tree_text(t[2], bare))
        left = self._tree_text(t[2], bare, t[1])
        if t[1] in (">>", "<<") and t[2][0] in ("f", "g"):
            left = "(" + left + ")"      # the shift operators bind tighter than a function application
        sym = "**" if (t[1] == "^" and getattr(self, "_pow_alias", False)) else t[1]
        txt = "%s%s%s" % (left, sym, self._tree_text(t[3], bare, t[1]))
        if parent is None or (bare and t[1] == "*" and parent in "+-"):
            return txt
        return "(" + txt + ")"

    def _tree_eval(self, t, m):
        """Value of the expression on the model: a list (one value per observation) or a float
        (literal).  Counts operator applications in self._napp."""
        k = t[0]
        n = len(m["obs"])
        if k == "n":
            return list(self._col(m, t[1]))
        if k == "l":
            return float(t[1])
        if k == "v":
            self._ext[t[1]] = self._ext_vals[t[1]]          # external variable passed next to the expression
            return float(self._ext_vals[t[1]])
        self._napp += 1
        if k == "g":
            col = self._col(m, t[2])
            clean = [v for v in col if v == v]
            if not clean or (t[1] in ("MIN", "MAX") and len(clean) != len(col)):
                raise Skip()
            if t[1] == "MIN":
                return [min(col)] * n
            if t[1] == "MAX":
                return [max(col)] * n
            tot = 0
            for v in clean:
                tot += v
            return [tot if t[1] == "SUM" else tot / len(clean)] * n
        if k == "f":
            arg = self._tree_eval(t[2], m)
            if isinstance(arg, float):
                raise Skip()                    # a function of a constant (shrunk candidates only)
            return self._m_unary(TREE_FUNCS[t[1]], arg)
        op = t[1]
        A, B = self._tree_eval(t[2], m), self._tree_eval(t[3], m)
        if isinstance(A, float) and isinstance(B, float):
            self.probe("constant_subexpression_folded")
            if op == "/":
                if B == 0:
                    raise Skip()
                return A / B
            if op in (">>", "<<"):
                raise Skip()
            if op == "^":
                return A ** B
            return A + B if op == "+" else A - B if op == "-" else A * B
        if isinstance(A, float):
            A = [A] * n
        if isinstance(B, float):
            B = [B] * n
        if op == "/":
            inv = 1.0 / B[0]                 # documented definition: x * (1 / number)
            return [u * inv for u in A]
        if op == "^":
            if B[0] not in (2.0, 3.0):
                raise Skip()                # (shrunk candidates only)
            return [float(u) ** B[0] for u in A]
        if op in (">>", "<<"):
            k2 = int(B[0]) if op == ">>" else -int(B[0])
            return [A[(i - k2) % n] for i in range(n)]
        if op == "+":
            return [u + v for u, v in zip(A, B)]
        if op == "-":
            return [u - v for u, v in zip(A, B)]
        return [u * v for u, v in zip(A, B)]

    def _build_expr(self, st, m):
        sh, a, b, lit = st["shape"], st["a"], st.get("b"), st.get("lit")
        if sh == "tree":
            names = self._tree_names(st["tree"])
            if any(not self._input_ok(m, nm) for nm in names):
                raise Skip()
            self._napp = 0
            self._ext = {}
            self._ext_vals = st.get("ext") or {"k1": 2.0, "k2": 0.25}
            self._pow_alias = bool(st.get("pow_alias"))
            val = self._tree_eval(st["tree"], m)
            if isinstance(val, float):
                raise Skip()
            if any(isinstance(v, float) and v == v and abs(v) > 1e15 for v in val):
                raise Skip()
            if self._napp > 10:
                self.probe("expression_with_more_than_10_temporaries")
            return self._tree_text(st["tree"], st.get("bare", False)), val, names, self._napp
        A = self._col(m, a)
        B = self._col(m, b) if b is not None and self._input_ok(m, b) else None
        L = self._lit(lit) if lit is not None else None
        if sh == "add":
            return "%s+%s" % (a, b), self._m_binary("ADDER", A, B), [a, b], 1
        if sh == "mullit":
            return "%s*%s" % (a, L), [v * float(lit) for v in A], [a], 1
        if sh == "litsub":
            return "%s-%s" % (L, a), [float(lit) - v for v in A], [a], 1
        if sh == "twotemp":
            return "(%s+%s)*%s" % (a, b, L), [(u + v) * float(lit) for u, v in zip(A, B)], [a, b], 2
        if sh == "three":
            c = st["c"]
            C = self._col(m, c)
            return "(%s+%s)*(%s-%s)" % (a, b, c, L), \
                [(u + v) * (w - float(lit)) for u, v, w in zip(A, B, C)], [a, b, c], 3
        if sh == "extvar":
            # the same expression text again and again, with another value of the external variable
            if "k" in m["names"] or st.get("out") == "k":
                raise Skip()        # a feature and an external of the same name in one request: unspecified
            k = float(st.get("kval", 2.0))
            self._ext = {"k": k}
            return "%s*k" % a, [v * k for v in A], [a], 1
        if sh == "diff":
            return "D{%s}" % a, self._m_unary("DIFFERENTIATOR", A), [a], 1
        if sh == "integ":
            return "I{%s}" % a, self._m_unary("INTEGRATOR", A), [a], 1
        if sh == "copy":
            return "%s*1" % a, [v * 1.0 for v in A], [a], 1
        if sh == "alias":
            return "%s" % a, list(A), [a], 0
        if sh == "literal":
            return L, [float(lit)] * len(A), [], 0
        if sh == "absf":
            return "ABS{%s-%s}" % (a, L), [abs(v - float(lit)) if v == v else NAN for v in A], [a], 2
        if sh in ("avgdev", "sumfn"):
            clean = [v for v in A if v == v]
            if not clean:
                raise Skip()
            tot = 0
            for v in clean:
                tot += v
            if sh == "sumfn":
                return "SUM{%s}*%s" % (a, L), [tot * float(lit)] * len(A), [a], 2
            mean = tot / len(clean)
            return "%s-AVG{%s}" % (a, a), [v - mean for v in A], [a], 2
        raise HarnessError(sh)

    def op_expr(self, st):
        t, m = self._sess(st)
        n = len(m["obs"])
        if n == 0:
            raise Skip()
        sh = st["shape"]
        if sh == "reflex":
            out = st["a"]
            if out not in m["names"] or not self._input_ok(m, out):
                raise Skip()
            text = "%s+=%s" % (out, self._lit(st["lit"]))
            exp = [v + float(st["lit"]) for v in self._col(m, out)]
            ntemp = 1
        elif sh == "xshift":
            out = "x"
            text = "x=x+%s" % self._lit(st["lit"])
            exp = [o["x"] + float(st["lit"]) for o in m["obs"]]
            ntemp = 1
        elif sh == "xfrom":
            if st["a"] not in m["names"]:
                raise Skip()
            col = self._col(m, st["a"])
            if any(not isinstance(v, float) or v != v or abs(v) > 1e8 for v in col):
                raise Skip()            # coordinates stay on the planet (squares of 1e200 overflow: not C17)
            out = "y" if (st.get("lit") == 3) else "x"
            text = "%s=%s" % (out, st["a"])
            exp = list(col)
            ntemp = 0
            self.probe("coordinate_assigned_from_stored_feature")
        else:
            out = st["out"]
            ins = [st["a"]] + ([st["b"]] if sh in ("add", "twotemp", "three") else []) + \
                ([st["c"]] if sh == "three" else [])
            if sh == "tree":
                ins = []
            if any(not self._input_ok(m, i) for i in ins) or out in RESERVED:
                raise Skip()
            rhs, exp, _, ntemp = self._build_expr(st, m)
            text = "%s=%s" % (out, rhs)
            if sh == "tree" and st.get("reflex"):
                # reflexive assignment: a -= b - c means a = a - (b - c)
                if not self._input_ok(m, out):
                    raise Skip()
                cur = self._col(m, out)
                op = st["reflex"]
                exp = [(u + v) if op == "+" else ((u - v) if op == "-" else u * v) for u, v in zip(cur, exp)]
                text = "%s%s=%s" % (out, op, rhs)
                ntemp += 1
                self.probe("reflexive_assignment_of_a_compound_expression")
        ext = getattr(self, "_ext", None) if sh in ("tree", "extvar") else None
        if ext:
            self.probe("expression_with_external_variables")
            rv, exc = self.call(t.operate, text, dict(ext))
        elif st.get("api") == "getitem":
            rv, exc = self.call(t.__getitem__, text)
        else:
            rv, exc = self.call(t.operate, text)
        if exc is not None:
            return self._unexpected("C01", exc, "expression %r" % text)
        if out in ("x", "y"):
            for o, v in zip(m["obs"], exp):
                o[out] = v
            m["geo"] += 1
            self.probe("expression_assigns_coordinate")
        else:
            if out in m["names"]:
                self.probe("overwrite_via_expression")
            self._setcol(m, out, exp)
            m["fresh"].pop(out, None)
        if ntemp >= 2:
            self.probe("evaluation_with_2_or_more_temporaries")
        self._check_all("C01", "expression %r" % text)
        self.observed(text)

    def op_expr_noeq(self, st):
        t, m = self._sess(st)
        if len(m["obs"]) == 0:
            raise Skip()
        ins = [st["a"]] + ([st["b"]] if st["shape"] in ("add", "twotemp") else [])
        if st["shape"] == "tree":
            ins = []
        if any(not self._input_ok(m, i) for i in ins):
            raise Skip()
        text, exp, _, ntemp = self._build_expr(st, m)
        ext = getattr(self, "_ext", None) if st["shape"] == "tree" else None
        if ext:
            self.probe("expression_with_external_variables")
            rv, exc = self.call(t.operate, text, dict(ext))
        elif st.get("api") == "getitem" and any(ch in text for ch in "+-/*^()"):
            rv, exc = self.call(t.__getitem__, text)      # bracket form needs an operator character
        else:
            rv, exc = self.call(t.operate, text)
        if exc is not None:
            return self._unexpected("C01", exc, "expression %r" % text)
        if rv is None or not leq(list(rv), exp):
            self.fail("C01", "return.values", "expression %r without '=' returned other values" % text,
                      jsonable(exp), jsonable(rv))
        self._check_all("C01", "expression %r (no '=': track must be unchanged)" % text)
        self.observed(text)

    def op_rejected(self, st):
        """A request the API documents as refused: the documented exception,
        and nothing changes."""
        from tracklib.util.exceptions import AnalyticalFeatureError
        t, m = self._sess(st)
        name, kind = st["name"], st["kind"]
        if kind == "create_on_empty":
            # documented refusal: a feature cannot be created on a track without observation;
            # nothing may be registered (the track is filled later and must start clean)
            if len(m["obs"]) != 0:
                raise Skip()
            _, exc = self.call(t.createAnalyticalFeature, st["out"], 1.0)
            self.stats["fault_fired:rejected_request"] += 1
            if not isinstance(exc, AnalyticalFeatureError):
                self.fail("C01", "rejected.exception", "createAnalyticalFeature on an empty track must be refused "
                          "with AnalyticalFeatureError", "AnalyticalFeatureError", repr(exc))
                return "raised"
            self.probe("feature_refused_on_an_empty_track")
            self._check_all("C01", "refused creation on an empty track (nothing may be registered)")
            return "rejected"
        if kind == "resample_zero":
            # a resampling step of 0 m is refused (division by zero) before anything is replaced
            if len(m["obs"]) < 2 or m.get("dup_obs") or m.get("loose_rows"):
                raise Skip()
            _, exc = self.call(t.resample, 0, 1, 1)
            self.stats["fault_fired:rejected_request"] += 1
            if exc is None or not isinstance(exc, Exception):
                raise Skip()
            self.probe("resampling_refused")
            self._check_all("C01", "refused resample (nothing may change)")
            return "rejected"
        if kind != "create_reserved" and (name in m["names"] or name in RESERVED):
            raise Skip()
        if len(m["obs"]) == 0:
            raise Skip()
        if kind == "update_unknown":
            _, exc = self.call(t.updateAnalyticalFeature, name, 1.0)
        elif kind == "remove_unknown":
            _, exc = self.call(t.removeAnalyticalFeature, name)
        elif kind == "delete_unknown":
            _, exc = self.call(t.__setitem__, name, "#DELETE")
        elif kind == "read_unknown":
            _, exc = self.call(t.getAnalyticalFeature, name)
        elif kind == "setobs_unknown":
            _, exc = self.call(t.setObsAnalyticalFeature, name, 0, 1.0)
        elif kind == "expr_unknown_function":
            # an expression calling a function the evaluator does not know, after an intermediate
            # result exists: the library gives up through exit(1) (SystemExit); nothing may change
            if not self._input_ok(m, st.get("a", "")):
                raise Skip()
            _, exc = self.call(t.operate, "%s=(%s*2)+FOO{%s}" % (st["out"], st["a"], st["a"]))
            self.stats["fault_fired:rejected_request"] += 1
            if exc is None:
                self.fail("C01", "rejected.exception", "an expression calling the unknown function FOO must be "
                          "refused", "an exception / exit", "normal return")
                return "raised"
            self.probe("expression_refused_through_exit")
            self._check_all("C01", "refused expression (nothing may change, no temporary may stay listed)")
            return "rejected"
        elif kind == "expr_unknown":
            # an expression naming a feature that does not exist, after an intermediate result
            # has been materialised: refused (the library exits / raises), nothing may change
            if not (self._input_ok(m, st.get("a", "")) and self._input_ok(m, st.get("b", ""))):
                raise Skip()
            _, exc = self.call(t.operate, "%s=(%s+%s)*%s" % (st["out"], st["a"], st["b"], name))
            self.stats["fault_fired:rejected_request"] += 1
            if exc is None:
                self.fail("C01", "rejected.exception", "an expression naming the unknown feature %r must be refused"
                          % name, "an exception / exit", "normal return")
                return "raised"
            self.probe("failed_expression_after_intermediate_result")
            self._check_all("C01", "refused expression (nothing may change, no temporary may stay listed)")
            return "rejected"
        else:
            _, exc = self.call(t.createAnalyticalFeature, st["reserved"], 1.0)
        self.stats["fault_fired:rejected_request"] += 1
        if not isinstance(exc, AnalyticalFeatureError):
            self.fail("C01", "rejected.exception", "request %s must be refused with AnalyticalFeatureError" % kind,
                      "AnalyticalFeatureError", repr(exc))
            return "raised"
        self._check_all("C01", "rejected request %s (nothing may change)" % kind)
        return "rejected"

    # ------------------------------------------------------------------ C04 ops
    def _mobs(self, o):
        return {"x": o[0], "y": o[1], "z": o[2], "t": list(o[3]), "f": {}}

    def _no_feats(self, m):
        if m["names"]:
            raise Skip()         # a fresh Obs carries no feature values: caller's business

    def op_add_obs(self, st):
        t, m = self._sess(st)
        self._no_feats(m)
        _, exc = self.call(t.addObs, self._mk_obs(st["obs"]))
        if exc is not None:
            return self._unexpected("C04", exc, "addObs")
        m["obs"].append(self._mobs(st["obs"]))
        m["geo"] += 1
        self._check_all("C04", "addObs")

    def op_set_obs(self, st):
        """Replace one observation in place (track[i] = obs / setObs): the history a
        later sort or chronological insert has to cope with."""
        t, m = self._sess(st)
        self._no_feats(m)
        n = len(m["obs"])
        if n == 0:
            raise Skip()
        i = st["i"] % n
        if st.get("api") == "setObs":
            _, exc = self.call(t.setObs, i, self._mk_obs(st["obs"]))
        else:
            _, exc = self.call(t.__setitem__, i, self._mk_obs(st["obs"]))
        if exc is not None:
            return self._unexpected("C04", exc, "track[%d] = obs" % i)
        m["obs"][i] = self._mobs(st["obs"])
        m["geo"] += 1
        self._check_all("C04", "track[%d] = obs" % i)

    def op_fork_span(self, st):
        """extractSpanTime copies the observations: its result is an independent
        track and becomes a session of its own; whatever is done to either of
        the two from now on must not show in the other."""
        from tracklib.core import ObsTime
        t, m = self._sess(st)
        if not m["obs"]:
            raise Skip()
        a, b = tuple(st["t1"]), tuple(st["t2"])
        lo, hi = min(a, b), max(a, b)
        exp = [o for o in m["obs"] if lo <= tuple(o["t"]) <= hi]
        if not exp:
            raise Skip()
        rv, exc = self.call(t.extractSpanTime, ObsTime(*st["t1"]), ObsTime(*st["t2"]))
        if exc is not None:
            return self._unexpected("C04", exc, "extractSpanTime")
        self._check_derived("C04", rv, exp, m["names"], "extractSpanTime")
        if self.violations:
            return
        to = st["to"]
        nm = copy.deepcopy(m)
        nm["obs"] = copy.deepcopy(exp)
        nm["geo"] += 1
        nm["fresh"] = {}
        self.real[to], self.model[to] = rv, nm
        self.derived.pop(to, None)
        self.probe("span_copy_becomes_a_session")
        self._check_all("C04", "extractSpanTime (result kept as a session)")

    def op_edit_time(self, st):
        """Edit a timestamp field in place (public attributes of ObsTime)."""
        t, m = self._sess(st)
        n = len(m["obs"])
        if n == 0:
            raise Skip()
        i = st["i"] % n
        idx = {"min": 4, "sec": 5, "ms": 6}[st["field"]]
        cur = m["obs"][i]["t"][idx]
        new = cur + st["delta"]
        if not (0 <= new <= (999 if idx == 6 else 59)):
            raise Skip()
        ts = t.getObs(i).timestamp
        setattr(ts, st["field"], new)
        m["obs"][i]["t"][idx] = new
        m["geo"] += 1
        self.probe("timestamp_edited_in_place")
        self._check_all("C04", "in-place edit of a timestamp")

    def op_fork_reverse(self, st):
        """reverse() returns a reversed copy; it becomes a session of its own."""
        t, m = self._sess(st)
        to = st["to"]
        cp, exc = self.call(t.reverse)
        if exc is not None:
            return self._unexpected("C04", exc, "reverse")
        nm = copy.deepcopy(m)
        nm["obs"].reverse()
        nm["geo"] += 1
        nm["fresh"] = {}
        self.real[to], self.model[to] = cp, nm
        self.derived.pop(to, None)
        self.probe("reversed_copy_becomes_a_session")
        self._check_all("C04", "reverse")

    def _adopt_order(self, prop, t, m, pool, where):
        """The real order must be a permutation of `pool` in non-decreasing time;
        ties are unspecified, so the model adopts the real order by tag."""
        # identity = (tag, timestamp): copies of one observation (a track concatenated with its own
        # fork) carry the same tag and may since have been given different timestamps
        def key_of_real(ro):
            ts = ro.timestamp
            return (ro.position.getZ(), ts.year, ts.month, ts.day, ts.hour, ts.min, ts.sec, ts.ms)
        by_tag = {}
        for o in pool:
            by_tag.setdefault((o["z"],) + tuple(o["t"]), []).append(o)
        got_tags = [key_of_real(t.getObs(i)) for i in range(t.size())]
        if sorted(got_tags) != sorted((o["z"],) + tuple(o["t"]) for o in pool):
            self.fail(prop, "sequence.multiset", where + ": the observations are not a permutation of the "
                      "previous ones", sorted([o["z"]] + list(o["t"]) for o in pool), [list(g) for g in got_tags])
            return False
        new = [by_tag[g].pop() for g in got_tags]
        ts = [tuple(o["t"]) for o in new]
        if any(ts[i] > ts[i + 1] for i in range(len(ts) - 1)):
            self.fail(prop, "sequence.order", where + ": timestamps are not in non-decreasing order",
                      "non-decreasing", [list(x) for x in ts])
            return False
        m["obs"] = new
        return True

    def op_sort(self, st):
        t, m = self._sess(st)
        n = len(m["obs"])
        if n == 0:
            raise Skip()
        if self._sorted(m):
            self.probe("sort_of_sorted")
        elif all(tuple(m["obs"][i]["t"]) >= tuple(m["obs"][i + 1]["t"]) for i in range(n - 1)):
            self.probe("sort_of_reverse_sorted")
        if st.get("chrono"):
            # another user wants the same fixes in time order and leaves the arrival order alone:
            # a second track on the list getObsList() hands out, sorted
            from tracklib.core import Track
            chrono, exc = self.call(lambda: Track(t.getObsList()))
            if exc is None:
                _, exc = self.call(chrono.sort)
            if exc is not None:
                return self._unexpected("C04", exc, "Track(t.getObsList()).sort()")
            self.probe("second_track_on_the_same_list_sorted")
            m2 = {"obs": list(m["obs"])}
            if self._adopt_order("C04", chrono, m2, list(m["obs"]), "sort of a second track on the same list"):
                self._check_all("C04", "sort of a second track built on the list of this one")
            return
        _, exc = self.call(t.sort)
        if exc is not None:
            return self._unexpected("C04", exc, "sort")
        if self._adopt_order("C04", t, m, list(m["obs"]), "sort"):
            m["geo"] += 1
            self._check_all("C04", "sort")

    def op_sort_radix(self, st):
        """sortRadix: the O(n) sort by time.  Its buckets cover the years 1970..2069; a track
        with a timestamp outside is refused (IndexError) and must be left as it was."""
        t, m = self._sess(st)
        n = len(m["obs"])
        if n == 0:
            raise Skip()
        outside = any(not (1970 <= o["t"][0] <= 2069) for o in m["obs"])
        _, exc = self.call(t.sortRadix)
        if outside:
            self.stats["fault_fired:rejected_request"] += 1
            if exc is None:
                raise Skip()          # (years before 1970 wrap around silently: not generated)
            if isinstance(exc, SystemExit):
                return self._unexpected("C04", exc, "sortRadix")
            self.probe("radix_sort_refused_a_year_outside_its_buckets")
            self._check_all("C04", "refused sortRadix (nothing may change)")
            return "rejected"
        if exc is not None:
            return self._unexpected("C04", exc, "sortRadix")
        if self._adopt_order("C04", t, m, list(m["obs"]), "sortRadix"):
            m["geo"] += 1
            self._check_all("C04", "sortRadix")

    def op_fork_concat(self, st):
        """The result of t + t2 (or t + t.extract(0, 0), t + t % 2) becomes a session.  It holds
        the *same* Obs objects as its operands (by design), so the operands' sessions end here;
        when an operand is used twice the same Obs sits at two positions."""
        t, m = self._sess(st)
        self._no_feats(m)
        o, to, how = st["other"], st["to"], st["how"]
        s = st.get("s", 0)
        if not m["obs"] or m.get("linked") or self.model.get(o, {}).get("linked") or m.get("loose_rows") \
                or self.model.get(o, {}).get("loose_rows"):
            raise Skip()            # (its Obs objects also belong to a session that lives on)
        if how == "plus":
            if o not in self.model or self.model[o]["names"] or self.model[o].get("dup_obs") and o != s:
                raise Skip()
            t2, m2 = self.real[o], self.model[o]
            second = m2["obs"]
        elif how == "first":
            t2, exc = self.call(t.extract, 0, 0)
            if exc is not None:
                return self._unexpected("C04", exc, "extract(0, 0)")
            second, o = m["obs"][:1], s
        else:
            t2, exc = self.call(t.__mod__, 2)
            if exc is not None:
                return self._unexpected("C04", exc, "t % 2")
            second, o = m["obs"][::2], s
        rv, exc = self.call(t.__add__, t2)
        if exc is not None:
            return self._unexpected("C04", exc, "t + t2")
        exp = m["obs"] + second
        self._check_derived("C04", rv, exp, [], "t%d + (%s)" % (s, how), check_feats=False)
        if self.violations:
            return
        nm = {"obs": copy.deepcopy(exp), "names": [], "fresh": {}, "geo": m["geo"] + 1, "dup_obs": True}
        for k in {s, o, to}:
            self.real.pop(k, None)
            self.model.pop(k, None)
            self.derived.pop(k, None)
        self.real[to], self.model[to] = rv, nm
        self._retag(rv, nm, st.get("tag0", 10 ** 6))
        if o == s:
            self.probe("same_observation_at_two_positions")
        self.probe("concatenation_becomes_a_session")
        self._check_all("C04", "t + t2 (result kept as a session)")

    def op_fork_derived(self, st):
        """A track derived by t + <empty track>, extract, >, <, %, [:] becomes a session NEXT TO
        its source.  The two share their Obs objects (by design) but each has its own list: from
        now on both only take steps that move observations around, and whatever one does to its
        sequence must not show in the other."""
        from tracklib.core import Track
        t, m = self._sess(st)
        self._no_feats(m)
        s, to, how = st.get("s", 0), st["to"], st["how"]
        n = len(m["obs"])
        if n == 0 or to == s or self.cfg["sessions"] < 2:
            raise Skip()
        calls = {"plus_empty": (lambda: t + Track([]), m["obs"]), "extract_all": (lambda: t.extract(0, n - 1), m["obs"]),
                 "gt0": (lambda: t > 0, m["obs"]), "lt0": (lambda: t < 0, m["obs"]),
                 "mod1": (lambda: t % 1, m["obs"]), "slice_all": (lambda: t[:], m["obs"]),
                 "mod2": (lambda: t % 2, m["obs"][::2])}
        fn, exp = calls[how]
        rv, exc = self.call(fn)
        if exc is not None:
            return self._unexpected("C04", exc, "derivation %s" % how)
        self._check_derived("C04", rv, exp, [], "derivation %s" % how, check_feats=False)
        if self.violations:
            return
        nm = {"obs": copy.deepcopy(exp), "names": [], "fresh": {}, "geo": m["geo"] + 1, "dup_obs": True,
              "linked": True, "loose_rows": m.get("loose_rows", False)}
        m["dup_obs"] = True
        m["linked"] = True
        self.real[to], self.model[to] = rv, nm
        self.derived.pop(to, None)
        self.probe("derived_track_lives_on_next_to_its_source")
        self._check_all("C04", "derivation %s (result kept as a session next to its source)" % how)

    def op_fork_simplify(self, st):
        """The simplifier returns a track made of the source's Obs objects without the feature
        table: the rows of its observations carry values the track does not list.  The result
        becomes a session (the source's session ends); what C17 promises must hold on it."""
        from tracklib.algo.simplification import simplify
        t, m = self._sess(st)
        s, to = st.get("s", 0), st["to"]
        n = len(m["obs"])
        if n < 3 or m.get("dup_obs"):
            raise Skip()
        rv, exc = self.call(simplify, t, st["tol"], st["mode"])
        if exc is not None:
            if isinstance(exc, Exception):
                self.probe("simplifier_refused_the_geometry")          # closed / degenerate geometries (C16)
                self._check_all("C17", "refused simplification (nothing may change)")
                return "domain"
            return self._unexpected("C17", exc, "simplify")
        if rv is None or not hasattr(rv, "getObs"):
            raise Skip()
        tags = [rv.getObs(i).position.getZ() for i in range(rv.size())]
        by_tag = {}
        for o in m["obs"]:
            by_tag.setdefault(o["z"], []).append(o)
        if any(g not in by_tag for g in tags) or rv.size() < 2:
            raise Skip()                 # which fixes survive is C16's subject
        kept = [copy.deepcopy(by_tag[g][0]) for g in tags]
        listed = rv.getListAnalyticalFeatures()
        for o in kept:
            o["f"] = {k: v for k, v in o["f"].items() if k in listed}
        nm = {"obs": kept, "names": [x for x in m["names"] if x in listed], "fresh": {}, "geo": m["geo"] + 1,
              "loose_rows": True}
        for k in {s, to}:
            self.real.pop(k, None)
            self.model.pop(k, None)
            self.derived.pop(k, None)
        self.real[to], self.model[to] = rv, nm
        self.probe("simplified_track_becomes_a_session")
        if any(len(rv.getObs(i).features) > len(nm["names"]) for i in range(rv.size())):
            self.probe("observation_rows_longer_than_the_feature_table")
        self._check_all("C17", "simplify (result kept as a session)")

    def op_insert_chrono(self, st):
        t, m = self._sess(st)
        self._no_feats(m)
        if not self._sorted(m):
            raise Skip()
        n = len(m["obs"])
        new = self._mobs(st["obs"])
        if n in (1, 2, 4, 8, 16):
            self.probe("insert_into_size_pow2")
        if n in (3, 5, 7, 9, 15, 17):
            self.probe("insert_into_size_pow2_pm1")
        if n and tuple(new["t"]) == tuple(m["obs"][0]["t"]):
            self.probe("insert_equal_to_first")
        if n and tuple(new["t"]) == tuple(m["obs"][-1]["t"]):
            self.probe("insert_equal_to_last")
        if n and tuple(new["t"]) < tuple(m["obs"][0]["t"]):
            self.probe("insert_before_first")
        if st.get("api") == "chrono":
            _, exc = self.call(t.insertObsInChronoOrder, self._mk_obs(st["obs"]))
        else:
            _, exc = self.call(t.insertObs, self._mk_obs(st["obs"]))
        if exc is not None:
            return self._unexpected("C04", exc, "insertObs (chronological)")
        if self._adopt_order("C04", t, m, list(m["obs"]) + [new], "chronological insert"):
            # the relative order of the observations that were already there must not change
            m["geo"] += 1
            self._check_all("C04", "insertObs (chronological)")

    def op_insert_at(self, st):
        t, m = self._sess(st)
        self._no_feats(m)
        i = st["i"] % (len(m["obs"]) + 1)
        _, exc = self.call(t.insertObs, self._mk_obs(st["obs"]), i)
        if exc is not None:
            return self._unexpected("C04", exc, "insertObs(obs, i)")
        m["obs"].insert(i, self._mobs(st["obs"]))
        m["geo"] += 1
        self._check_all("C04", "insertObs(obs, %d)" % i)

    def _remove_idx(self, st, t, m, idx, call, where):
        exp_left = [o for i, o in enumerate(m["obs"]) if i not in set(idx)]
        rv, exc = call()
        if exc is not None:
            return self._unexpected("C04", exc, where)
        m["obs"] = exp_left
        m["geo"] += 1
        if rv is not None and rv != len(idx):
            self.fail("C04", "remove.count", where + ": reported number of removed observations", len(idx), rv)
        self._check_all("C04", where)

    def op_remove_list(self, st):
        t, m = self._sess(st)
        n = len(m["obs"])
        idx = sorted(set(i for i in st["idx"] if i < n))
        if not idx:
            raise Skip()
        if 0 in idx and n - 1 in idx and n > 1:
            self.probe("removal_of_first_and_last")
        arg = list(dict.fromkeys(i for i in st["idx"] if i < n))
        mine = list(arg)                       # the caller's own list object (it may come back sorted)
        self._remove_idx(st, t, m, idx, lambda: self.call(t.removeObsList, mine), "removeObsList(%s)" % idx)
        if not self.violations and sorted(mine) != sorted(arg):
            self.fail("C04", "remove.argument_consumed", "removeObsList changed the content of the caller's index "
                      "list (the same list is used for the next track)", sorted(arg), mine)

    def op_remove_obs(self, st):
        t, m = self._sess(st)
        n = len(m["obs"])
        if n == 0:
            raise Skip()
        i = st["i"] % n
        self._remove_idx(st, t, m, [i], lambda: self.call(t.removeObs, i), "removeObs(%d)" % i)

    def op_remove_first(self, st):
        t, m = self._sess(st)
        if not m["obs"]:
            raise Skip()
        self._remove_idx(st, t, m, [0], lambda: self.call(t.removeFirstObs), "removeFirstObs")

    def op_remove_last(self, st):
        t, m = self._sess(st)
        if not m["obs"]:
            raise Skip()
        self._remove_idx(st, t, m, [len(m["obs"]) - 1], lambda: self.call(t.removeLastObs), "removeLastObs")

    def _derive(self, st, where, fn, exp, m, check_feats=True):
        rv, exc = self.call(fn)
        if exc is not None:
            return self._unexpected("C04", exc, where)
        if not exp:
            self.probe("empty_result")
        self._check_derived("C04", rv, exp, m["names"], where, check_feats)
        if not self.violations:
            if check_feats:
                self.derived[st.get("s", 0)] = {"track": rv, "names": list(m["names"]), "where": where}
            self._check_all("C04", where + " (source must be unchanged)")
        self.observed([o["z"] for o in exp])
        return rv

    def op_extract(self, st):
        t, m = self._sess(st)
        n = len(m["obs"])
        if n == 0:
            raise Skip()
        i, j = sorted((st["i"] % n, st["j"] % n))
        if st.get("neg"):
            # both indexes counted from the end, as everywhere in Python: extract(-3, -1) is the last three
            self.probe("extract_with_indexes_from_the_end")
            self._derive(st, "extract(%d, %d)" % (i - n, j - n), lambda: t.extract(i - n, j - n),
                         m["obs"][i:j + 1], m)
            return
        if (st["i"] + st["j"]) % 9 == 0:
            j = i - 1                       # an empty range (the accumulate pattern starts from it)
            self.probe("empty_index_range")
        self._derive(st, "extract(%d, %d)" % (i, j), lambda: t.extract(i, j), m["obs"][i:j + 1], m)

    def op_slice(self, st):
        """track[i:j:k] -- index extraction through the bracket operator."""
        t, m = self._sess(st)
        if not m["obs"]:
            raise Skip()
        sl = slice(st.get("i"), st.get("j"), st.get("k"))
        exp = m["obs"][sl]
        if (st.get("k") or 1) < 0:
            self.probe("slice_with_negative_step")
        self._derive(st, "t[%s:%s:%s]" % (st.get("i"), st.get("j"), st.get("k")), lambda: t[sl], exp, m)

    def _adopt_all(self, t, tag0):
        """Model of a track another subsystem of the library produced (resampling, the * and **
        operators, loop, incrementTime): everything is read from the real object -- what those
        subsystems compute is not judged here -- and judged from the next step on.  None when the
        track cannot be read consistently."""
        try:
            names = list(t.getListAnalyticalFeatures())
            cols = {nm: list(t.getAnalyticalFeature(nm)) for nm in names}
            obs = []
            for i in range(t.size()):
                ro = t.getObs(i)
                ts = ro.timestamp
                f = [ts.year, ts.month, ts.day, ts.hour, ts.min, ts.sec, ts.ms]
                _dt.datetime(f[0], f[1], f[2], f[3], f[4], f[5])
                if not all(isinstance(v, int) for v in f) or not 0 <= f[6] <= 999:
                    return None
                if len(ro.features) < len(names):
                    return None
                obs.append({"x": ro.position.getX(), "y": ro.position.getY(), "z": ro.position.getZ(), "t": f,
                            "f": {nm: cols[nm][i] for nm in names}})
        except Exception:  # noqa: BLE001
            return None
        m = {"obs": obs, "names": [nm for nm in names], "fresh": {}, "geo": 0}
        if any(len(t.getObs(i).features) > len(names) for i in range(t.size())):
            m["loose_rows"] = True
        if any(nm.startswith("#") for nm in names) or any(nm in ("ds",) for nm in names):
            return None
        self._retag(t, m, tag0)
        return m

    def op_via(self, st):
        """The track goes through another subsystem of the library and comes back (or a new
        track comes out of it): resampling in place, t * 2, t ** n, makeOdd / makeEven, loop,
        incrementTime, setOrder.  Its new state is adopted; the source of a fork and every other
        session must be what they were; later steps are judged as usual."""
        t, m = self._sess(st)
        n = len(m["obs"])
        k, s, to = st["kind"], st.get("s", 0), st["to"]
        if m.get("dup_obs") or m.get("loose_rows"):
            raise Skip()
        if k in ("make_odd", "make_even"):
            if n == 0:
                raise Skip()
            drop = (n % 2 == 0) if k == "make_odd" else (n % 2 == 1)
            _, exc = self.call(t.makeOdd if k == "make_odd" else t.makeEven)
            if exc is not None:
                return self._unexpected("C04", exc, k)
            if drop:
                m["obs"].pop()
                m["geo"] += 1
            self._check_all("C04", "%s (the last observation goes when the size has the other parity)" % k)
            return
        if k == "loop":
            # loop(): the first fix is moved onto the last one (values; the two stay two objects)
            if n < 2:
                raise Skip()
            _, exc = self.call(t.loop)
            if exc is not None:
                return self._unexpected("C04", exc, "loop")
            m["obs"][0]["x"], m["obs"][0]["y"] = m["obs"][-1]["x"], m["obs"][-1]["y"]
            m["obs"][0]["z"] = m["obs"][-1]["z"]
            m["geo"] += 1
            self._retag(t, m, st.get("tag0", 10 ** 6))
            m["looped"] = True
            self.probe("track_closed_by_loop")
            self._check_all("C04", "loop (first fix moved onto the last)")
            return
        if k == "set_order":
            if n == 0:
                raise Skip()
            _, exc = self.call(t.setOrder)
            if exc is not None:
                return self._unexpected("C01", exc, "setOrder")
            if "order" not in m["names"]:
                self._setcol(m, "order", list(range(n)))
            self._check_all("C01", "setOrder (feature 'order' = rank, created once)")
            return
        if n < 2 or not self._sorted(m):
            raise Skip()
        fork = k in ("mul2", "pow", "idle_begin", "idle_end")
        # the step "idle" belongs to C17's family (as fork_noise does): a track produced from another one
        # whose abscissas and speeds are then computed independently of the source's
        fprop = "C17" if st.get("op") == "idle" else "C04"
        if k in ("idle_begin", "idle_end"):
            # removal of the idle fixes at one end (track >= d, track <= d): which fixes go is not
            # judged; the track that comes out is a track of its own
            if any(not self._numeric(m, c) for c in ("x", "y")):
                raise Skip()
            if st.get("alias"):
                rv, exc = self.call(t.__ge__ if k == "idle_begin" else t.__le__, st["idle"])
            else:
                rv, exc = self.call(t.removeIdleEnds, st["idle"], "begin" if k == "idle_begin" else "end")
            self.probe("idle_end_removed")
        elif k == "resample_t":
            ts = [abs_seconds(o["t"]) for o in m["obs"]]
            if any(ts[i] >= ts[i + 1] for i in range(n - 1)) or (ts[-1] - ts[0]) / st["delta"] > 60:
                raise Skip()            # strictly increasing timestamps; at most 60 instants come out
            rv, exc = self.call(t.resample, st["delta"], 1, 2)
        elif k == "resample_s":
            if self._def_abs_curv(m)[-1] / st["delta"] > 60:
                raise Skip()            # (a leg of 4 000 km resampled every 50 cm is not a step of a simulation)
            rv, exc = self.call(t.resample, st["delta"], 1, 1)
        elif k == "mul2":
            if self._def_abs_curv(m)[-1] <= 0:
                raise Skip()            # (a track of zero length resampled in space never ends: C05's domain)
            rv, exc = self.call(t.__mul__, 2)
        elif k == "pow":
            ts = [abs_seconds(o["t"]) for o in m["obs"]]
            if any(ts[i] >= ts[i + 1] for i in range(n - 1)):
                raise Skip()            # (zero duration resampled in time never ends: C05's domain)
            rv, exc = self.call(t.__pow__, st["n"])
        elif k == "loop_add":
            rv, exc = self.call(t.loop, True)
        else:
            rv, exc = self.call(t.incrementTime, 1, 0)
        if exc is not None:
            # whether those subsystems accept this geometry / these timestamps is not judged;
            # when they refuse, nothing may have changed -- unless the call works in place
            if fork:
                self._check_all("C04", "%s refused (the source must be unchanged)" % k)
                return "domain"
            self.real.pop(s, None)
            self.model.pop(s, None)
            self.derived.pop(s, None)
            return "domain"
        target = rv if fork else t
        if target is None or not hasattr(target, "getObs"):
            raise Skip()
        nm = self._adopt_all(target, st.get("tag0", 10 ** 6))
        if k in ("idle_begin", "idle_end") and nm is not None \
                and len(set(id(target.getObs(i)) for i in range(target.size()))) != target.size():
            nm = None           # the same observation object at two places (an index range that wrapped around)
            if fork:
                self._check_all(fprop, "%s (the source track must be unchanged)" % k)
                return
        if nm is not None and nm.get("loose_rows"):
            self.fail("C01", "table.width", "%s: the track that comes out lists %d feature(s) but some of its "
                      "observations carry more values (the next feature created on it will be read from the wrong "
                      "column)" % (k, len(nm["names"])), len(nm["names"]),
                      sorted(set(len(target.getObs(i).features) for i in range(target.size()))))
            return
        dest = to if fork else s
        if fork:
            self._check_all(fprop, "%s (the source track must be unchanged)" % k)
            if self.violations:
                return
        if nm is None:
            self.real.pop(dest, None)
            self.model.pop(dest, None)
            self.derived.pop(dest, None)
            self.probe("track_from_another_subsystem_not_adoptable")
            return
        nm["geo"] = m["geo"] + 1
        self.real[dest], self.model[dest] = target, nm
        self.derived.pop(dest, None)
        self.probe("track_went_through_another_subsystem")
        self._check_all(fprop, "%s (adopted)" % k)

    def _adopt_side_features(self, t, m, where):
        """Other parts of the library (profile plots, stop detection) compute the abscissas, the speeds
        and features of their own on the caller's track, by design: what is new is taken over, abscissas
        and speeds are held to their definitions, everything that was there must be unchanged."""
        for name in t.getListAnalyticalFeatures():
            if name in m["names"] or name.startswith("#"):
                continue
            got = list(t.getAnalyticalFeature(name))
            if len(got) != len(m["obs"]):
                self.fail("C17", "table.width", "%s: new feature %r has %d values for %d observations"
                          % (where, name, len(got), len(m["obs"])), len(m["obs"]), len(got))
                return False
            self._setcol(m, name, got)
            m["fresh"][name] = m["geo"]
            definition = {"abs_curv": self._def_abs_curv, "speed": self._def_speed}.get(name)
            if definition is not None and self._sorted(m):
                want = definition(m)
                if any(not close(a, b) for a, b in zip(got, want)):
                    self.fail("C17", name + ".definition", "%s: the %s it left on the track differs from the "
                              "geometric definition" % (where, name), jsonable(want), jsonable(got))
                    return False
        return True

    def op_segment(self, st):
        """algo.segmentation.segmentation marks, in a feature of the caller's choice, the fixes whose value
        exceeds a threshold (1) and the others (0): one more writer of the feature table, with a one-line
        definition.  The marker name may already hold something: what is read afterwards is the new marker."""
        from tracklib.algo.segmentation import segmentation
        t, m = self._sess(st)
        if len(m["obs"]) == 0 or st["out"] in RESERVED or not self._numeric(m, st["in1"]) \
                or m.get("dup_obs") or m.get("loose_rows"):
            raise Skip()
        thr = st["thr"]
        exp = [1 if (v == v and v > thr) else 0 for v in self._col(m, st["in1"])]
        if st["out"] in m["names"]:
            self.probe("marker_name_used_again")
        _, exc = self.call(segmentation, t, st["in1"], st["out"], thr)
        if exc is not None:
            return self._unexpected("C01", exc, "segmentation(%r -> %r)" % (st["in1"], st["out"]))
        self._setcol(m, st["out"], exp)
        m["fresh"].pop(st["out"], None)
        self._check_all("C01", "segmentation (marker %r)" % st["out"])

    def op_neighbour(self, st):
        """Another module of the library is handed the track to look at (bounding box, centroid, length,
        comparison with another track, selection constraints, a plot, a copy of its first fix).  What those
        modules compute is not judged; what they leave on the tracks they were given is: every new
        feature is taken over (abscissas and speeds held to their definitions), everything else must
        be as it was.  Objects they hand out belong to the caller, who edits them."""
        t, m = self._sess(st)
        n = len(m["obs"])
        if n < 2 or m.get("dup_obs") or m.get("loose_rows") or "ds" in m["names"]:
            raise Skip()
        what = st["what"]
        o = st.get("other", 0)
        t2 = self.real.get(o, t)
        m2 = self.model.get(o, m)
        if len(m2["obs"]) < 2 or m2.get("dup_obs") or m2.get("loose_rows") or "ds" in m2["names"]:
            t2, m2 = t, m
        prop = self.cfg.get("focus") or "C01"

        def run():
            if what == "bbox":
                bb = t.bbox()
                bb.addMargin(0.1)
                bb.translate(2.0, -1.0)
            elif what == "centroid":
                c = t.getCentroid()
                c.setX(c.getX() + 5.0)
            elif what == "length":
                t.length()
            elif what in ("compare_nn", "compare_hausdorff"):
                from tracklib.algo import comparison as cmp
                cmp.compare(t, t2, cmp.MODE_COMPARISON_NN if what == "compare_nn" else cmp.MODE_COMPARISON_HAUSDORFF,
                            verbose=False)
            elif what == "track_constraint":
                from tracklib.algo.selection import TrackConstraint
                TrackConstraint(t2, buffer=5).contains(t)
            elif what == "time_constraint":
                from tracklib.algo.selection import TimeConstraint
                TimeConstraint(begin=t2.getFirstObs().timestamp, end=t2.getLastObs().timestamp).contains(
                    t.getFirstObs().timestamp)
            elif what == "plot":
                import matplotlib.pyplot as plt
                try:
                    t.plot()
                finally:
                    plt.close("all")
            elif what == "first_copy":
                ob = t.getFirstObs().copy()
                ob.position.setX(ob.position.getX() + 9.0)
                ob.timestamp = ob.timestamp.addSec(30)
            elif what == "coords":
                xs = t.getX()
                if len(xs):
                    xs[0] = xs[0] + 1.0
            elif what == "kalman_refused":
                # a backward filter asked to use a speed feature the track does not have: refused
                from tracklib.algo import filtering as flt
                flt.Kalman(t, 0.5, 2.0, speed_af="zz_no_such_feature", mode=flt.KALMAN_BACKWARD, verbose=False)
            elif what == "cut_and_select":
                # a time-only constraint that cuts the tracks it selects: works on copies
                from tracklib.core import TrackCollection
                from tracklib.algo import selection as sel
                tc = sel.TimeConstraint(begin=t2.getObs(len(t2) // 2).timestamp, end=t2.getLastObs().timestamp)
                sel.Constraint(time=tc, type=sel.TYPE_CUT_AND_SELECT).select(TrackCollection([t]))
            elif what == "fusion":
                if len(t) > 40 or len(t2) > 40:
                    return
                from tracklib.core import TrackCollection
                from tracklib.algo import comparison as cmp
                fused = cmp.fusion(TrackCollection([t, t2]), verbose=False)
                for ob in fused:                  # the fused track belongs to the caller
                    ob.position.setX(ob.position.getX() + 1.0)
            elif what == "noise_refused":
                # simulated variants with a kernel whose covariance matrix is not positive definite: refused
                import tracklib
                from tracklib.core.kernel import UniformKernel
                tracklib.noise(t, [1.0], [UniformKernel(35)], n=2)
            else:
                from tracklib.core import Operator
                from tracklib.core.kernel import GaussianKernel
                t.operate(Operator.FILTER, "x", GaussianKernel(2), "zz_smooth")
                t.removeAnalyticalFeature("zz_smooth")
        _, exc = self.call(run)
        if exc is not None and not isinstance(exc, Exception):
            return self._unexpected(prop, exc, "neighbouring module (%s)" % what)
        self.probe("track_handed_to_another_module")
        if exc is not None:
            self.probe("neighbouring_module_refused_the_request")
        for tt, mm, ss in ((t, m, st.get("s", 0)),) + (((t2, m2, o),) if t2 is not t else ()):
            left = [nm for nm in tt.getListAnalyticalFeatures() if nm not in mm["names"]]
            if left:
                self.fail(prop, "table.names", "neighbouring module (%s): it only reads the tracks it is given, yet the "
                          "track of session %d now lists %r" % (what, ss, left), sorted(mm["names"]),
                          tt.getListAnalyticalFeatures())
                return
        self._check_all(prop, "neighbouring module (%s): the tracks it was given keep their positions, timestamps "
                        "and features" % what)
        self.observed([what, None if exc is None else type(exc).__name__])

    def op_neighbour4(self, st):
        return self.op_neighbour(st)

    def op_neighbour17(self, st):
        return self.op_neighbour(st)

    def op_profile(self, st):
        """Track.plotProfil (matplotlib, off-screen): a read-only user of abscissas and speeds.  A request
        naming a feature the track does not have is refused; either way the track keeps what it had."""
        t, m = self._sess(st)
        if len(m["obs"]) < 2 or m.get("dup_obs") or m.get("loose_rows") or "ds" in m["names"] or not self._sorted(m):
            raise Skip()
        import matplotlib.pyplot as plt
        afs = ["zz_no_such_feature"] if st.get("refused") else []
        try:
            _, exc = self.call(t.plotProfil, st["template"], afs)
        finally:
            plt.close("all")
        if st.get("refused"):
            self.stats["fault_fired:rejected_request"] += 1
            if exc is None:
                raise Skip()
            self.probe("profile_plot_refused")
        elif exc is not None:
            if isinstance(exc, Exception):
                raise Skip()            # (what the plotting layer accepts is not this world's subject)
            return self._unexpected("C17", exc, "plotProfil")
        if self._adopt_side_features(t, m, "plotProfil(%s)" % st["template"]):
            self._check_all("C17", "plotProfil (the track keeps its positions, timestamps and features)")
        return "rejected" if st.get("refused") else "ok"

    def op_find_stops(self, st):
        """Stop detection with the acceleration criterion works on the caller's track (it computes the
        speeds there); whatever it detects, speeds read afterwards follow the definition."""
        from tracklib.algo.segmentation import findStops, MODE_STOPS_ACC
        t, m = self._sess(st)
        if len(m["obs"]) < 2 or m.get("dup_obs") or m.get("loose_rows") or "ds" in m["names"] or not self._sorted(m):
            raise Skip()
        if any(nm in m["names"] for nm in ("acceleration", "radius", "duration")):
            raise Skip()
        _, exc = self.call(findStops, t, st["spatial"], st["temporal"], MODE_STOPS_ACC, False)
        if exc is not None and not isinstance(exc, Exception):
            return self._unexpected("C17", exc, "findStops")
        self.probe("stop_detection_on_the_track")
        if self._adopt_side_features(t, m, "findStops"):
            self._check_all("C17", "findStops (positions, timestamps and earlier features must be unchanged)")

    def op_idle(self, st):
        """track >= d / track <= d (idle ends removed): the track that comes out becomes a session of
        its own, whose abscissas and speeds are computed independently of its source's."""
        return self.op_via(st)

    def op_describe(self, st):
        """Printing and summarising a track are read-only."""
        t, m = self._sess(st)
        how = st["how"]
        if how == "str":
            _, exc = self.call(str, t)
        elif how == "summary":
            _, exc = self.call(t.summary)
        elif how == "print":
            _, exc = self.call(t.print)
        elif how == "len":
            rv, exc = self.call(len, t)
            if exc is None and rv != len(m["obs"]):
                self.fail("C04", "table.size", "len(track)", len(m["obs"]), rv)
                return
        else:
            if len(m["obs"]) == 0:
                raise Skip()
            rv, exc = self.call(t.duration)
            exp = abs_seconds(m["obs"][-1]["t"]) - abs_seconds(m["obs"][0]["t"])
            if exc is None and abs(rv - exp) > 1e-6:
                self.fail("C04", "table.timestamp", "duration() = last minus first timestamp", exp, rv)
                return
        if exc is not None and not isinstance(exc, Exception):
            return self._unexpected("C04", exc, "describing the track (%s)" % how)
        self._check_all("C04", "describing the track (%s): read-only" % how)

    def op_remove_by_time(self, st):
        """removeObsList with timestamps instead of indices: for every timestamp of the list the
        first observation carrying it goes (documented alternative of the index form)."""
        from tracklib.core import ObsTime
        t, m = self._sess(st)
        n = len(m["obs"])
        if n == 0:
            raise Skip()
        stamps = []
        for i in st["idx"]:
            tf = tuple(m["obs"][i % n]["t"])
            if tf not in stamps:
                stamps.append(tf)
        left = list(m["obs"])
        for tf in sorted(stamps):
            for k, o in enumerate(left):
                if tuple(o["t"]) == tf:
                    del left[k]
                    break
        rv, exc = self.call(t.removeObsList, [ObsTime(*tf) for tf in stamps])
        if exc is not None:
            return self._unexpected("C04", exc, "removeObsList(timestamps)")
        m["obs"] = left
        m["geo"] += 1
        if rv is not None and rv != len(stamps):
            self.fail("C04", "remove.count", "removeObsList(timestamps): reported number of removed observations",
                      len(stamps), rv)
            return
        self.probe("removal_by_timestamp")
        self._check_all("C04", "removeObsList(timestamps)")

    def op_set_obs_list(self, st):
        """setObsList: the whole sequence is replaced."""
        t, m = self._sess(st)
        self._no_feats(m)
        _, exc = self.call(t.setObsList, [self._mk_obs(o) for o in st["obs"]])
        if exc is not None:
            return self._unexpected("C04", exc, "setObsList")
        m["obs"] = [self._mobs(o) for o in st["obs"]]
        m["geo"] += 1
        self._check_all("C04", "setObsList")

    def op_pop_obs(self, st):
        t, m = self._sess(st)
        n = len(m["obs"])
        if n == 0:
            raise Skip()
        i = st["i"] % n
        tag = m["obs"][i]["z"]
        exp_left = [o for k, o in enumerate(m["obs"]) if k != i]
        rv, exc = self.call(t.popObs, i)
        if exc is not None:
            return self._unexpected("C04", exc, "popObs(%d)" % i)
        m["obs"] = exp_left
        m["geo"] += 1
        if rv is None or not hasattr(rv, "position") or rv.position.getZ() != tag:
            self.fail("C04", "remove.popped", "popObs(%d) must return the observation it removed" % i, tag,
                      None if rv is None or not hasattr(rv, "position") else rv.position.getZ())
            return
        self._check_all("C04", "popObs(%d)" % i)

    def op_span(self, st):
        from tracklib.core import ObsTime
        t, m = self._sess(st)
        if not m["obs"]:
            raise Skip()
        a, b = tuple(st["t1"]), tuple(st["t2"])
        if a > b:
            self.probe("span_with_reversed_bounds")
        lo, hi = min(a, b), max(a, b)
        exp = [o for o in m["obs"] if lo <= tuple(o["t"]) <= hi]
        rv = self._derive(st, "extractSpanTime", lambda: t.extractSpanTime(ObsTime(*st["t1"]), ObsTime(*st["t2"])),
                          exp, m)
        if exp and not self.violations and rv is not None and hasattr(rv, "createAnalyticalFeature"):
            # extractSpanTime copies the observations, so the result is an independent track:
            # a feature created on it must leave the source exactly as it was
            _, exc = self.call(rv.createAnalyticalFeature, "zz", 0.0)
            if exc is not None:
                return self._unexpected("C04", exc, "createAnalyticalFeature on the result of extractSpanTime")
            if st.get("s", 0) in self.derived:
                self.derived[st.get("s", 0)]["names"] = list(m["names"]) + ["zz"]
            self.probe("feature_created_on_span_result")
            self._check_all("C04", "feature created on the track returned by extractSpanTime (source must be unchanged)")

    def op_span_track(self, st):
        """extractSpanTime(other_track): the span between the first and the last fix of another track."""
        t, m = self._sess(st)
        o = st["other"]
        if o not in self.model or not self.model[o]["obs"] or not m["obs"]:
            raise Skip()
        t2, m2 = self.real[o], self.model[o]
        a, b = tuple(m2["obs"][0]["t"]), tuple(m2["obs"][-1]["t"])
        if a > b:
            self.probe("span_with_reversed_bounds")
        lo, hi = min(a, b), max(a, b)
        exp = [x for x in m["obs"] if lo <= tuple(x["t"]) <= hi]
        self._derive(st, "extractSpanTime(track of session %d)" % o, lambda: t.extractSpanTime(t2), exp, m)

    def op_concat(self, st):
        t, m = self._sess(st)
        o = st["other"]
        if o not in self.model:
            raise Skip()
        t2, m2 = self.real[o], self.model[o]
        same = sorted(m["names"]) == sorted(m2["names"]) and \
            t.getListAnalyticalFeatures() == t2.getListAnalyticalFeatures()
        if same and m["names"]:
            self.probe("concat_with_equal_feature_lists")
        where = "t%d + t%d" % (st.get("s", 0), o)
        if st.get("iadd"):
            # total = t; total += t2 -- the augmented spelling; t itself (still held by its session) must not grow
            import operator
            where = "total = t%d; total += t%d" % (st.get("s", 0), o)
            rv = self._derive(st, where, lambda: operator.iadd(t, t2), m["obs"] + m2["obs"], m, check_feats=same)
        else:
            rv = self._derive(st, where, lambda: t + t2, m["obs"] + m2["obs"], m, check_feats=same)
        if not same and not self.violations and rv is not None and hasattr(rv, "getListAnalyticalFeatures"):
            # the operands list different features (or the same ones in another order): whatever
            # the result lists must still read, for every observation, the value that observation
            # has under that name in its own track
            exp_obs = m["obs"] + m2["obs"]
            for nm in rv.getListAnalyticalFeatures():
                if any(nm not in o_["f"] for o_ in exp_obs):
                    self.fail("C04", "derived.names", where + ": the result lists %r, which one operand does not "
                              "have" % nm, "not listed", nm)
                    return
                got, exc = self.call(rv.getAnalyticalFeature, nm)
                e = [o_["f"][nm] for o_ in exp_obs]
                if exc is not None or not leq(list(got), e):
                    self.fail("C04", "derived.values", where + ": values of %r in the result (operands list their "
                              "features in different orders)" % nm, jsonable(e),
                              repr(exc) if exc is not None else jsonable(list(got)))
                    return
            if sorted(m["names"]) == sorted(m2["names"]) and m["names"]:
                self.probe("concat_same_features_in_another_order")

    def op_mod_n(self, st):
        t, m = self._sess(st)
        if not m["obs"]:
            raise Skip()
        k = st["n"]
        self._derive(st, "t %% %d" % k, lambda: t % k, m["obs"][::k], m)

    def op_mod_pattern(self, st):
        t, m = self._sess(st)
        if not m["obs"]:
            raise Skip()
        p = st["pattern"]
        if len(p) > len(m["obs"]):
            self.probe("pattern_longer_than_track")
        exp = [o for i, o in enumerate(m["obs"]) if p[i % len(p)]]
        if st.get("same"):
            if tuple(p) in self.userpat:
                self.probe("same_pattern_object_used_again")
            arg = self.userpat.setdefault(tuple(p), list(p))      # what the user wrote once, and never touched
        else:
            arg = list(p)
        self._derive(st, "t % pattern", lambda: t % arg, exp, m)

    def op_gt(self, st):
        t, m = self._sess(st)
        k = st["n"] % (len(m["obs"]) + 4)
        if k > len(m["obs"]):
            self.probe("trim_more_than_the_track_holds")
        self._derive(st, "t > %d" % k, lambda: t > k, m["obs"][k:], m)

    def op_lt(self, st):
        t, m = self._sess(st)
        n = len(m["obs"])
        k = st["n"] % (n + 4)
        if k > n:
            self.probe("trim_more_than_the_track_holds")
        self._derive(st, "t < %d" % k, lambda: t < k, m["obs"][: max(0, n - k)], m)

    # ------------------------------------------------------------------ C17 ops
    def _def_abs_curv(self, m):
        s = [0.0]
        for a, b in zip(m["obs"], m["obs"][1:]):
            s.append(s[-1] + math.sqrt((a["x"] - b["x"]) ** 2 + (a["y"] - b["y"]) ** 2))
        return s

    def _def_speed(self, m):
        n = len(m["obs"])
        out = []
        for i in range(n):
            lo, hi = (0, 1) if i == 0 else ((n - 2, n - 1) if i == n - 1 else (i - 1, i + 1))
            a, b = m["obs"][lo], m["obs"][hi]
            dt = abs_seconds(b["t"]) - abs_seconds(a["t"])
            out.append(NAN if dt == 0 else math.sqrt((a["x"] - b["x"]) ** 2 + (a["y"] - b["y"]) ** 2) / dt)
        return out

    def _c17(self, st, name, definition, call, where, direct=False):
        t, m = self._sess(st)
        n = len(m["obs"])
        if n < 2 or ("ds" in m["names"] and name != "abs_curv"):
            raise Skip()
        cached = name in m["names"] and not direct
        judged = True
        if not self._sorted(m):
            judged = False
            self.probe("unsorted_timestamps_not_judged")
        if cached:
            self.probe("repeated_computation_on_cached_feature")
            if m["fresh"].get(name) != m["geo"]:
                judged = False
                self.probe("stale_cache_served")
        had_ds = "ds" in m["names"]
        stale_ds = had_ds and m["fresh"].get("ds") != m["geo"]
        if had_ds:
            # computeAbsCurv integrates a leg-length feature that is already there and then removes it
            self.probe("abs_curv_from_existing_ds")
            if not cached and m["fresh"].get("ds") != m["geo"]:
                judged = False
                self.probe("stale_cache_served")
        rv, exc = self.call(call, t)
        if exc is not None:
            return self._unexpected("C17", exc, where)
        rv = list(rv)
        exp = definition(m)
        if cached:
            stored = self._col(m, name)
        if judged:
            if len(rv) != n or any(not close(a, b) for a, b in zip(rv, exp)):
                self.fail("C17", name + ".definition", where + ": returned values differ from the geometric "
                          "definition", jsonable(exp), jsonable(rv), cached=cached)
                return
            if name == "abs_curv":
                if rv[0] != 0 or any(rv[i + 1] < rv[i] for i in range(n - 1)):
                    self.fail("C17", "abs_curv.monotone", where + ": must start at 0 and never decrease",
                              jsonable(exp), jsonable(rv))
                    return
        if had_ds:
            if "ds" in t.getListAnalyticalFeatures():
                self.fail("C17", "table.names", where + ": the leg-length feature 'ds' is still listed", [], ["ds"])
                return
            self._delcol(m, "ds")
        if cached:
            if not leq(rv, stored) and judged:
                self.fail("C17", name + ".repeat", where + ": repeated computation returned other values than "
                          "the first one", jsonable(stored), jsonable(rv))
                return
        else:
            if name in t.getListAnalyticalFeatures():
                self._setcol(m, name, list(t[name]))       # adopt (verified above when judged)
                if not leq(rv, self._col(m, name)):
                    self.fail("C17", name + ".stored", where + ": stored feature differs from the returned list",
                              jsonable(rv), jsonable(self._col(m, name)))
                    return
                # a result integrated from a leg-length feature that predates a geometry edit is itself stale
                m["fresh"][name] = m["geo"] if not (had_ds and stale_ds) else -1
            else:
                self.fail("C17", name + ".stored", where + ": feature is not listed after computation",
                          name, t.getListAnalyticalFeatures())
                return
        getter = t.getAbsCurv if name == "abs_curv" else t.getSpeed
        g, exc = self.call(getter)
        if exc is not None or not leq(list(g), self._col(m, name)):
            self.fail("C17", name + ".stored", where + ": %s() differs from the stored feature" % getter.__name__,
                      jsonable(self._col(m, name)), repr(exc) if exc is not None else jsonable(list(g)))
            return
        self._check_all("C17", where + " (positions, timestamps and other features must be unchanged)")
        self.observed(jsonable(rv))

    def _retag(self, t, m, tag0):
        """Give every observation object of a track handed over by the library a fresh unique
        tag (height).  The same object at two positions keeps one tag."""
        seen = {}
        for i, o in enumerate(m["obs"]):
            ro = t.getObs(i)
            if id(ro) not in seen:
                # negative heights: a namespace of its own, disjoint from the tags new fixes are drawn with
                seen[id(ro)] = -(tag0 + len(seen) + 1) * 2.0 ** -24
                ro.position.setZ(seen[id(ro)])
            o["z"] = seen[id(ro)]

    def _adopt_positions(self, t, m):
        for i, o in enumerate(m["obs"]):
            p = t.getObs(i).position
            o["x"], o["y"], o["z"] = p.getX(), p.getY(), p.getZ()
        m["geo"] += 1

    def op_transform(self, st):
        """In-place geometric transformation of one track (shiftTo with its default target or an
        explicit one, translate, scale).  The arithmetic is not judged (the new positions of
        *this* track are adopted); every other session must be left exactly as it was, and
        features computed afterwards are held to the new geometry."""
        from tracklib.core import ENUCoords
        t, m = self._sess(st)
        n = len(m["obs"])
        if n == 0:
            raise Skip()
        k = st["kind"]
        if k == "shift_default":
            _, exc = self.call(t.shiftTo, st["i"] % n)
        elif k == "shift_to":
            _, exc = self.call(t.shiftTo, st["i"] % n, ENUCoords(st["tx"], st["ty"], 0))
        elif k == "translate":
            _, exc = self.call(t.translate, st["tx"], st["ty"])
        elif k == "rotate":
            _, exc = self.call(t.rotate, 0.25 * st["h"])
        else:
            _, exc = self.call(t.scale, st["h"])
        if exc is not None:
            return self._unexpected("C17", exc, "in-place transformation %s" % k)
        if t.size() != n:
            self.fail("C17", "table.size", "in-place transformation %s changed the number of observations" % k,
                      n, t.size())
            return
        self._adopt_positions(t, m)
        self._retag(t, m, st.get("tag0", 10 ** 6))      # shifts and scalings move the heights: fresh unique tags
        self.probe("track_transformed_in_place")
        self._check_all("C17", "in-place transformation %s of session %d (every other track must be unchanged)"
                        % (k, st.get("s", 0)))

    def op_add_seconds(self, st):
        """Track.addSeconds shifts every timestamp (through epoch seconds and back: C03's
        arithmetic, not judged -- the new timestamps of *this* track are adopted).  Every
        other session, and everything computed afterwards, is held to the usual oracles."""
        t, m = self._sess(st)
        n = len(m["obs"])
        if n == 0:
            raise Skip()
        _, exc = self.call(t.addSeconds, st["sec"])
        if exc is not None:
            if isinstance(exc, Exception):
                raise Skip()
            return self._unexpected("C17", exc, "addSeconds")
        if t.size() != n:
            return self.fail("C17", "table.size", "addSeconds changed the number of observations", n, t.size())
        new = []
        for i in range(n):
            ts = t.getObs(i).timestamp
            f = [ts.year, ts.month, ts.day, ts.hour, ts.min, ts.sec, ts.ms]
            try:
                _dt.datetime(f[0], f[1], f[2], f[3], f[4], f[5])
                ok = all(isinstance(v, int) for v in f) and 0 <= f[6] <= 999
            except Exception:  # noqa: BLE001
                ok = False
            if not ok:
                # not a calendar date (C03's subject): this session ends here
                s_ = st.get("s", 0)
                self.real.pop(s_, None)
                self.model.pop(s_, None)
                self.derived.pop(s_, None)
                self.probe("shifted_timestamp_is_not_a_calendar_date")
                return
            new.append(f)
        for o, f in zip(m["obs"], new):
            o["t"] = f
        m["geo"] += 1
        self.probe("timestamps_shifted_by_seconds")
        self._check_all("C17", "addSeconds (every other track must be unchanged)")

    def op_fork_noise(self, st):
        """stochastics.noise returns a noised *copy*; it becomes a session of its own.  The copy
        has another geometry, so it must not carry the source's curvilinear abscissa."""
        import numpy
        import random as _random
        from tracklib.algo.stochastics import noise
        from tracklib.core.kernel import GaussianKernel, DiracKernel
        t, m = self._sess(st)
        n = len(m["obs"])
        if n < 2 or "ds" in m["names"] or n > 200:
            raise Skip()            # (the covariance matrix of a thousand fixes takes seconds: not a step of a simulation)
        numpy.random.seed(st["seed"])
        _random.seed(st["seed"])
        ker = DiracKernel() if st.get("scope") is None else GaussianKernel(st["scope"])
        rv, exc = self.call(noise, t, [st["sigma"]], [ker], mode=st["mode"])
        if exc is not None:
            if isinstance(exc, Exception):
                # degenerate geometries (repeated positions) give a singular covariance matrix:
                # the call may be refused; the source must be what it was
                self.probe("noise_refused")
                self._check_all("C17", "refused noise() (nothing may change)")
                return "domain"
            return self._unexpected("C17", exc, "noise()")
        self._check_all("C17", "noise() (the source track must be unchanged)")
        if self.violations:
            return
        if rv is None or not hasattr(rv, "getObs") or rv.size() != n:
            self.fail("C17", "derived.type", "noise() must return a track of the same size", n,
                      None if rv is None or not hasattr(rv, "size") else rv.size())
            return
        to = st["to"]
        nm = copy.deepcopy(m)
        nm["fresh"] = {}
        if "abs_curv" in nm["names"]:
            self._delcol(nm, "abs_curv")
        self.real[to], self.model[to] = rv, nm
        self.derived.pop(to, None)
        self._adopt_positions(rv, nm)
        self._retag(rv, nm, st.get("tag0", 10 ** 6))
        self.probe("noised_copy_becomes_a_session")
        self._check_all("C17", "noise() (the noised copy: same fixes and features, no curvilinear abscissa of "
                        "the old geometry)")

    def op_speed_smoothed(self, st):
        """estimate_speed(kernel=width): smoothed speeds.  The call first computes abs_curv and
        the raw speed; with a width larger than the track it then gives up (prints a warning,
        returns None) -- what it leaves behind is the *raw* speed, which is judged; an accepted
        call overwrites the speed with smoothed values, which are adopted and never taken for
        the definition afterwards."""
        t, m = self._sess(st)
        n = len(m["obs"])
        w = st["width"]
        if n < 2 or "ds" in m["names"] or not self._sorted(m):
            raise Skip()
        had_speed, had_ac = "speed" in m["names"], "abs_curv" in m["names"]
        fresh_before = (not had_speed) and (not had_ac or m["fresh"].get("abs_curv") == m["geo"])
        rv, exc = self.call(t.estimate_speed, w)
        if exc is not None:
            if isinstance(exc, Exception):
                # (too few fixes for the window arithmetic: refused; the session ends here)
                s_ = st.get("s", 0)
                self.real.pop(s_, None)
                self.model.pop(s_, None)
                self.derived.pop(s_, None)
                return "domain"
            return self._unexpected("C17", exc, "estimate_speed(kernel)")
        listed = t.getListAnalyticalFeatures()
        for nm in ("abs_curv", "speed"):
            if nm in listed:
                self._setcol(m, nm, list(t[nm]))
        refused = n < w
        if refused:
            self.stats["fault_fired:rejected_request"] += 1
            self.probe("smoothed_speed_refused_window_larger_than_track")
            if "speed" in m["names"] and not had_speed and fresh_before:
                exp = self._def_speed(m)
                got = self._col(m, "speed")
                if any(not close(a, b) for a, b in zip(got, exp)):
                    self.fail("C17", "speed.definition", "estimate_speed(kernel=%d) was refused (window larger than "
                              "the track); the speed feature it leaves behind is not the raw speed" % w,
                              jsonable(exp), jsonable(got))
                    return
                m["fresh"]["speed"] = m["geo"]
        else:
            m["fresh"]["speed"] = -1                 # smoothed values: never taken for the definition
            self.probe("smoothed_speed_computed")
        if "abs_curv" in m["names"] and not had_ac:
            m["fresh"]["abs_curv"] = m["geo"]
        self._check_all("C17", "estimate_speed(kernel=%d)" % w)

    def op_coll_speed(self, st):
        """TrackCollection.addAnalyticalFeature(speed) over the tracks of all sessions: every
        track of the collection gets its own speeds (tracks are told apart as objects, whatever
        their user / track identifiers)."""
        from tracklib.core import TrackCollection
        from tracklib.algo.analytics import speed
        sess = [s_ for s_ in sorted(self.model) if len(self.model[s_]["obs"]) >= 2 and not self.model[s_].get("dup_obs")
                and not self.model[s_].get("loose_rows") and "ds" not in self.model[s_]["names"]]
        if len(sess) < 2:
            raise Skip()
        coll = TrackCollection([self.real[s_] for s_ in sess])
        _, exc = self.call(coll.addAnalyticalFeature, speed)
        if exc is not None:
            return self._unexpected("C17", exc, "TrackCollection.addAnalyticalFeature(speed)")
        for s_ in sess:
            t, m = self.real[s_], self.model[s_]
            if "speed" not in t.getListAnalyticalFeatures():
                self.fail("C17", "speed.stored", "TrackCollection.addAnalyticalFeature(speed): the track of session %d "
                          "has no speed" % s_, "speed", t.getListAnalyticalFeatures())
                return
            got = list(t["speed"])
            self._setcol(m, "speed", got)
            if self._sorted(m):
                exp = self._def_speed(m)
                if any(not close(a, b) for a, b in zip(got, exp)):
                    self.fail("C17", "speed.definition", "TrackCollection.addAnalyticalFeature(speed): speeds of the "
                              "track of session %d" % s_, jsonable(exp), jsonable(got))
                    return
                m["fresh"]["speed"] = m["geo"]
            else:
                m["fresh"]["speed"] = -1
        self.probe("feature_computed_through_a_collection")
        self._check_all("C17", "TrackCollection.addAnalyticalFeature(speed)")

    def op_speed_direct(self, st):
        """The speed algorithm applied through addAnalyticalFeature: always recomputes, so it
        is judged also after the geometry or the timestamps were edited."""
        from tracklib.algo.analytics import speed
        if "speed" in self._sess(st)[1]["names"]:
            self.probe("speed_recomputed_over_a_stored_one")
        return self._c17(st, "speed", self._def_speed, lambda t: t.addAnalyticalFeature(speed),
                         "addAnalyticalFeature(speed)", direct=True)

    def op_ds(self, st):
        """Leg lengths (analytics.ds) stored under the name computeAbsCurv uses."""
        from tracklib.algo.analytics import ds
        t, m = self._sess(st)
        n = len(m["obs"])
        if n < 1:
            raise Skip()
        if st.get("how") == "diff":
            # leg lengths obtained by differentiating the abscissa (NaN on the first fix, by definition)
            from tracklib.core import Operator
            if "abs_curv" not in m["names"] or m["fresh"].get("abs_curv") != m["geo"] or "ds" in m["names"]:
                raise Skip()
            rv, exc = self.call(t.operate, Operator.DIFFERENTIATOR, "abs_curv", "ds")
            if exc is not None:
                return self._unexpected("C17", exc, "operate(DIFFERENTIATOR, abs_curv, ds)")
            col = list(t["ds"])
            exp = [NAN] + [math.sqrt((a["x"] - b["x"]) ** 2 + (a["y"] - b["y"]) ** 2)
                           for a, b in zip(m["obs"], m["obs"][1:])]
            if len(col) != n or any(not close(a, b, 1e-6) for a, b in zip(col, exp)):
                self.fail("C17", "ds.definition", "leg lengths from the differentiated abscissa", jsonable(exp),
                          jsonable(col))
                return
            self._setcol(m, "ds", col)
            m["fresh"]["ds"] = m["geo"]
            self.probe("leg_lengths_from_the_differentiated_abscissa")
            self._check_all("C17", "operate(DIFFERENTIATOR, abs_curv, ds)")
            return
        rv, exc = self.call(t.addAnalyticalFeature, ds, "ds")
        if exc is not None:
            return self._unexpected("C17", exc, "addAnalyticalFeature(ds)")
        ac = self._def_abs_curv(m)
        exp = [0.0] + [math.sqrt((a["x"] - b["x"]) ** 2 + (a["y"] - b["y"]) ** 2)
                       for a, b in zip(m["obs"], m["obs"][1:])]
        rv = list(rv)
        if len(rv) != n or any(not close(a, b) for a, b in zip(rv, exp)):
            self.fail("C17", "ds.definition", "addAnalyticalFeature(ds): leg lengths", jsonable(exp), jsonable(rv))
            return
        if "ds" not in t.getListAnalyticalFeatures():
            self.fail("C17", "ds.stored", "addAnalyticalFeature(ds): feature is not listed", "ds",
                      t.getListAnalyticalFeatures())
            return
        self._setcol(m, "ds", list(t["ds"]))
        m["fresh"]["ds"] = m["geo"]
        self._check_all("C17", "addAnalyticalFeature(ds)")
        self.observed(jsonable(rv))

    def op_abs_curv(self, st):
        from tracklib.algo.cinematics import computeAbsCurv
        return self._c17(st, "abs_curv", self._def_abs_curv, computeAbsCurv, "computeAbsCurv")

    def op_speed(self, st):
        return self._c17(st, "speed", self._def_speed, lambda t: t.estimate_speed(), "estimate_speed")
