"""World `io` (property C13): simulated users of one process writing and
reading tracks and networks through the real tracklib readers/writers on a
simulated disk with faults, a simulated clock, and the process-global time
formats they all share.

Real: everything under tracklib.  Stub: the disk (SimFS), the clock, the
restart after a crash (globals restored, objects dropped).
"""
import errno

from ..kernel import World, Skip, HarnessError, InjectedInterrupt, SimCrash
from .. import simfs

DEFAULT = simfs.DEFAULT_FMT
FORMATS = [DEFAULT, "4Y-2M-2D 2h:2m:2s", "4Y-2M-2DT2h:2m:2sZ",
           "2D/2M/4Y 2h:2m:2s.3z", "4Y2M2D2h2m2s", "2h:2m:2s 2D-2M-4Y", "2M/2D/4Y 2h:2m:2s",
           "2D/2M/4Y 2h:2m:2s.2z", "4Y-2M-2D 2h:2m:2s.1z",           # hundredths / tenths of a second
           "2D/2M/2Y 2h:2m:2s"]                                      # two-digit years (of this century, as documented)
GPX_FMT = "4Y-2M-2DT2h:2m:2sZ"
GPX_OK_READ = (GPX_FMT, "4Y-2M-2DT2h:2m:2s")
SPECIAL_T = [(2020, 2, 29, 23, 59, 59), (2019, 12, 31, 23, 59, 59), (2020, 1, 1, 0, 0, 0),
             (1970, 1, 1, 0, 0, 0), (2099, 12, 31, 0, 0, 0), (2001, 2, 28, 12, 0, 1),
             (2024, 3, 31, 0, 0, 59), (2000, 2, 29, 0, 0, 0), (2018, 12, 31, 23, 46, 40),
             # pairs that print to the same text under day/month and month/day formats
             (2021, 3, 4, 10, 0, 0), (2021, 4, 3, 10, 0, 0), (2020, 1, 2, 0, 0, 0), (2020, 2, 1, 0, 0, 0)]
KIND_CLASS = {"ENU": "ENUCoords", "GEO": "GeoCoords", "ECEF": "ECEFCoords"}
WRITE_FAULTS = ("open_error", "write_error", "close_error", "interrupt", "crash")
READ_FAULTS = ("open_error", "read_error", "interrupt")
DIR_READ_FAULTS = ("open_error", "read_error", "interrupt", "listdir_error")
ERRNOS = {"open_error": (errno.EACCES, errno.ENOENT, errno.EMFILE),
          "write_error": (errno.ENOSPC, errno.EIO), "close_error": (errno.ENOSPC,),
          "read_error": (errno.EIO,), "listdir_error": (errno.EIO, errno.EACCES)}
FAMILIES = ("csv", "gpx", "gpxdir", "net", "wkt", "setfmt", "mkfmt", "tz", "clock",
            "reread", "read_unknown", "csvdir", "query")


def _wchoice(r, pairs):
    tot = sum(w for _, w in pairs)
    x = r.random() * tot
    for v, w in pairs:
        x -= w
        if x < 0:
            return v
    return pairs[-1][0]


class IoWorld(World):
    NAME = "io"
    PROPS = ("C13",)
    FALSIFIERS = {"C13": ("read_csv", "read_gpx", "read_gpx_dir", "read_network",
                          "wkt_roundtrip", "read_csv_dir", "read_net_wkt")}
    COMPONENTS = {
        "real": ["tracklib.io.TrackWriter (writeToFile, writeToCsv, writeToFiles, writeToGpx)",
                 "tracklib.io.TrackReader (readFromCsv, readFromFile, readFromGpx, readFromWkt, parseWkt)",
                 "tracklib.io.TrackFormat", "tracklib.io.NetworkWriter", "tracklib.io.NetworkReader",
                 "tracklib.io.NetworkFormat", "tracklib.core.ObsTime (formats, printing, parsing)",
                 "tracklib.core Track / Obs / coords / Network / Edge / Node"],
        "stub": ["disk: in-memory SimFS behind the module-level names open / os of the four io modules",
                 "clock: SimClock behind the name datetime of tracklib.core.obs_time",
                 "process restart after a crash: objects dropped, globals restored to import-time values",
                 "stdout of tracklib: discarded"]}
    STATE_MEASURE = "(read-format index, print-format index, acknowledged files (0..3), unacknowledged files (0..2), real global formats differ from the belief (read, print), in-memory format objects exist)"
    ASSUMPTIONS = [
        "a closed file is durable, a file open at a crash keeps a seeded prefix (tracklib never fsyncs)",
        "faults are injected at call granularity of the file primitives and, for interrupts, at traced "
        "line events inside tracklib/io/* and tracklib/core/obs_time.py; never inside in-memory code",
        "sessions interleave at whole-API-call granularity (the library is single-threaded)",
        "the reference model and oracles in /verif/sim/worlds/io.py are correct"]

    # ------------------------------------------------------------------ config
    @classmethod
    def draw_config(cls, r, focus):
        kinds = [k for k in ("open_error", "write_error", "close_error", "read_error",
                             "interrupt", "crash", "listdir_error") if r.random() < 0.6]
        rate = r.choice([0.0, 0.0, 0.05, 0.15, 0.3])
        if not kinds:
            rate = 0.0
        fmts = [DEFAULT] + [f for f in FORMATS[1:] if r.random() < 0.5]
        mix = {f: r.choice([0, 1, 1, 2, 4]) for f in FAMILIES}
        if not any(mix[f] for f in ("csv", "gpx", "gpxdir", "net", "wkt", "csvdir")):
            mix["csv"] = 2
        return {"nsteps": r.choice([5, 10, 20, 40, 60]), "sessions": r.choice([1, 1, 2, 3]),
                "fault_rate": rate, "fault_kinds": kinds, "formats": fmts, "mix": mix,
                "clock0": r.randrange(0, 4102444800), "max_obs": r.choice([1, 2, 4, 12] * 6 + [300, 600]),
                "shared": r.random() < 0.4, "bias_after_fault": r.random() < 0.7}

    @classmethod
    def deepen(cls, cfg, r):
        cfg["nsteps"] = min(cfg["nsteps"] * 3, 180)
        cfg["max_obs"] = r.choice([40, 100, 300, 1100] * 6 + [9000])     # a GPX file of 9000 fixes is over 1 MiB
        cfg["sessions"] = 3

    # ------------------------------------------------------------------- setup
    def setup(self):
        import tracklib  # noqa: F401
        self.fs = simfs.SimFS()
        self.clock = simfs.SimClock(self.cfg.get("clock0", 0))
        simfs.reset_globals()
        simfs.install(self.fs, self.clock)
        for s in range(3):
            self.fs.mkdir("/sim/u%d" % s)
            for d in range(2):
                self.fs.mkdir("/sim/u%d/d%d" % (s, d))
                self.fs.mkdir("/sim/u%d/c%d" % (s, d))
        self.fs.mkdir("/sim/shared")
        self.fs.mkdir("/sim/shared/d0")
        # reference model
        self.fmt_read = DEFAULT
        self.fmt_print = DEFAULT
        self.cat = {}            # path -> catalogue entry
        self.opts = {}           # session -> option dictionary the user keeps and updates between reads
        self.objs = {}           # (session, name) -> real in-memory object + model info
        self.counter = 0
        # generator state
        self.pending = {}
        self.want_roundtrip = 0
        self.faults_so_far = 0

    def teardown(self):
        simfs.uninstall()
        simfs.reset_globals()

    def abstract_state(self):
        from tracklib.core.obs_time import ObsTime
        leaked = (ObsTime.getReadFormat() != self.fmt_read,
                  ObsTime.getPrintFormat() != self.fmt_print)
        ack = sum(1 for e in self.cat.values() if e["state"] == "acked")
        unk = sum(1 for e in self.cat.values() if e["state"] != "acked")
        return (FORMATS.index(self.fmt_read) if self.fmt_read in FORMATS else -1,
                FORMATS.index(self.fmt_print) if self.fmt_print in FORMATS else -1,
                min(ack, 3), min(unk, 2), leaked, len(self.objs) > 0)

    # --------------------------------------------------------------- generator
    def _uniq(self):
        self.counter += 1
        return self.counter

    def _gen_coord(self, r, kind):
        if kind == "ENU":
            x = r.choice([0.0, -0.0004, 123456.7894, -987654.3216, -999999.4, r.uniform(-9e5, 9e5),
                          round(r.uniform(-1e3, 1e3), 3), r.uniform(-1, 1) * 1e-5,
                          15600123.456, -20037508.342,           # projected (Web-Mercator) metres: eight integer digits
                          5, -120])                              # whole metres given as ints
            return [x, r.choice([r.uniform(-1e5, 1e5), r.uniform(-1e5, 1e5), r.uniform(-1e5, 1e5), 19971868.88]),
                    r.choice([0.0, -12.3456, 8848.0005, r.uniform(-500, 9000)])]
        if kind == "GEO":
            return [r.choice([-179.99999999999, 179.123456789012, 0.0, r.uniform(-180, 180),
                              2.123456789, r.uniform(-180, 180), r.uniform(-180, 180), 180.0, -180.0]),
                    r.choice([r.uniform(-89.9, 89.9), r.uniform(-89.9, 89.9), 48.5, -12.25, r.uniform(-89.9, 89.9),
                              r.uniform(-89.9, 89.9), 90.0, -90.0, 45]),   # positions repeat
                    r.choice([0.0, -100.5, 9999.123456, r.uniform(-400, 9000)])]
        # -999999.x: a legitimate ECEF coordinate whose integer part is the reader's no-data marker
        return [r.choice([r.uniform(-6.4e6, 6.4e6), -999999.25, r.uniform(-6.4e6, 6.4e6), 26560123.789]),      # (a GNSS satellite)
                r.choice([r.uniform(-6.4e6, 6.4e6), 0.0005, -999998.5, -999999.75]),
                r.choice([r.uniform(-6.4e6, 6.4e6), r.uniform(-6.4e6, 6.4e6), -15203456.127])]

    def _gen_time(self, r):
        if r.random() < 0.5:
            f = list(r.choice(SPECIAL_T))
        else:
            mo = r.randint(1, 12)
            f = [r.randint(1970, 2099), mo, r.randint(1, 28), r.randint(0, 23),
                 r.randint(0, 59), r.randint(0, 59)]
        return f + [r.choice([0, 0, 500, 999, r.randint(0, 999)])]

    def _gen_track(self, r, kind, tid=None):
        n = r.choice([1, 1, 2, 3, self.cfg["max_obs"]])
        obs = []
        for _ in range(n):
            c = self._gen_coord(r, kind)
            obs.append([c[0], c[1], c[2], self._gen_time(r)])
        spec = {"kind": kind, "obs": obs, "tid": tid if tid is not None else self._uniq()}
        if r.random() < 0.3:
            spec["af"] = self._uniq() + 0.5
            spec["afname"] = r.choice(["a", "a", "elevation_gain", "timer"])
        return spec

    def _gen_net_spec(self, r):
        kind = r.choice(["ENU", "ENU", "GEO"])
        nn = r.randint(1, 5)
        ids = ["n%d" % i for i in range(nn)]
        tiny = [4e-05, 0.00025, 6.1e-10, -3.5e-07]          # printed with an exponent by the WKT writer
        if kind == "ENU":
            pos = {v: [r.choice([r.uniform(-1e4, 1e4)] * 4 + tiny), float(r.randint(-50, 50))] for v in ids}
        else:
            pos = {v: [r.choice([r.uniform(-179, 179)] * 4 + tiny), r.choice([r.uniform(-89, 89)] * 4 + tiny)]
                   for v in ids}
        edges = []
        # a network digitised by hand: the roads meeting at a junction end a centimetre or two apart
        ragged = r.random() < 0.15

        def end(p):
            return [p[0] + r.choice([0, 0, 0.02, -0.015]), p[1] + r.choice([0, 0, 0.01])] if ragged and kind == "ENU" else p
        for k in range(r.randint(1, 6)):
            a, b = r.choice(ids), r.choice(ids)
            mids = [[pos[a][0] + r.uniform(-1, 1), pos[a][1] + r.choice([0.25, -1.5, r.uniform(-1, 1)])]
                    for _ in range(r.choice([0, 0, 1, 3]))]
            eid = "e%d" % k
            if k == 1 and r.random() < 0.1:
                eid = ""                             # a blank identifier column
            if k >= 1 and r.random() < 0.08:
                eid = "e%d" % r.randrange(k)         # an identifier used again: the earlier edge is replaced
            edges.append([eid, a, b, r.choice([0, 0, 1, -1]), [end(pos[a])] + mids + [end(pos[b])]])
        return {"kind": kind, "edges": edges}

    def _path(self, r, s, stem, ext, n=3):
        if self.cfg["shared"] and r.random() < 0.3:
            return "/sim/shared/%s0%s" % (stem, ext)
        return "/sim/u%d/%s%d%s" % (s, stem, r.randrange(n), ext)

    def _fault(self, r, kinds):
        if r.random() >= self.cfg["fault_rate"]:
            return None
        ks = [k for k in self.cfg["fault_kinds"] if k in kinds]
        if not ks:
            return None
        k = r.choice(ks)
        f = {"kind": k}
        if k == "interrupt":
            f["at"] = int(round(10 ** r.uniform(0, 3.7)))
        elif k in ("write_error", "crash"):
            f["at"] = r.choice([1, 2, 3, 4, 6, 8, 12, 20, 40])
        elif k == "read_error":
            f["at"] = r.choice([1, 1, 2, 3, 5, 9])
        else:
            f["at"] = r.choice([1, 1, 1, 2])
        if k in ERRNOS:
            f["errno"] = r.choice(ERRNOS[k])
        if k == "crash":
            f["keep"] = r.choice([0.0, 1.0, round(r.random(), 3)])
        return f

    def gen(self, rngs):
        r = rngs("gen")
        s = r.randrange(self.cfg["sessions"])
        q = self.pending.setdefault(s, [])
        if q:
            return q.pop(0)
        dt = r.choice([0, 1, 1, 60, 3600, 86400, r.randint(0, 10 ** 6)])
        fams = [(f, w) for f, w in self.cfg["mix"].items() if w]
        fam = _wchoice(r, fams)
        if self.want_roundtrip > 0:
            self.want_roundtrip -= 1
            fam = "csv" if r.random() < 0.7 else "gpx"
        st = getattr(self, "_gen_" + fam)(r, s, q)
        st["s"] = s
        st["dt"] = dt
        return st

    def _after(self, st):
        """Generator bookkeeping: a fault on a format-borrowing step is followed
        by a dependent round trip soon."""
        if st.get("fault") and self.cfg.get("bias_after_fault"):
            self.want_roundtrip = 2
        return st

    def _gen_csv(self, r, s, q):
        kind = r.choice(["ENU", "GEO", "ECEF"])
        use_u, use_t = r.random() < 0.7, r.random() < 0.8
        k = 2 + use_u + use_t
        perm = list(range(k))
        r.shuffle(perm)
        ids = [perm[0], perm[1], perm[2] if use_u else -1, perm[2 + use_u] if use_t else -1]
        sep = r.choice([",", ";"]) if use_t else r.choice([",", ";", " "])
        path = self._path(r, s, "f", ".csv")
        tspec = self._gen_track(r, kind)
        if kind in ("GEO", "ECEF") and r.random() < 0.2:
            # the track is built geographic and converted in place (ECEF and back) before it is written
            g = self._gen_track(r, "GEO")
            g["conv"] = ["ECEF", "GEO"] if kind == "GEO" else ["ECEF"]
            g["kind"] = kind
            tspec = g
        st = {"op": "write_csv", "path": path, "track": tspec, "ids": ids,
              "sep": sep, "h": r.choice([1, 1, 2, 3]) if r.random() < 0.2 else 0}
        if r.random() < 0.12:
            # the documented defaults: writeToFile(track, path) writes E, N separated by a comma
            st.update({"ids": [0, 1, -1, -1], "sep": ",", "h": 0, "wapi": "defaults"})
            use_t = False
        elif r.random() < 0.25:
            st["wapi"] = "tocsv"
        if r.random() < 0.08:
            st["pre_export"] = r.choice(["kml", "geojson"])
        if "af" in tspec and st.get("wapi") != "defaults" and r.random() < 0.6:
            st["waf"] = True            # the feature is written too (af_names): columns after the coordinates and the time
        f = self._fault(r, WRITE_FAULTS)
        if f:
            st["fault"] = f
        api = r.choice(["csv", "csv", "file", "file_tf", "shared"])
        rd = {"op": "read_csv", "path": path, "api": api, "s": s, "dt": 1}
        if st.get("waf") and st["h"] >= 1 and r.random() < 0.5:
            rd["read_all"] = True       # ... and read back as features (needs the header line that names them)
        f = self._fault(r, READ_FAULTS)
        if f:
            rd["fault"] = f
        if api != "file_tf" and use_t:
            q.append({"op": "set_read_format", "fmt": "@file:" + path, "s": s, "dt": 0})
        q.append(rd)
        return self._after(st)

    def _gen_csvdir(self, r, s, q):
        kind = r.choice(["ENU", "GEO", "ECEF"])
        path = "/sim/u%d/c%d" % (s, r.randrange(2))
        n = r.choice([1, 2, 3])
        st = {"op": "write_csv_dir", "path": path, "tracks": [self._gen_track(r, kind) for _ in range(n)],
              "ids": r.choice([[0, 1, 2, 3], [1, 0, 3, 2], [2, 3, 0, 1], [0, 1, -1, 2], [1, 0, 2, -1]]),
              "sep": r.choice([",", ";"])}
        f = self._fault(r, WRITE_FAULTS)
        if f:
            st["fault"] = f
        q.append({"op": "set_read_format", "fmt": "@dir:" + path, "s": s, "dt": 0})
        rd = {"op": "read_csv_dir", "path": path, "ls": r.randrange(1000), "s": s, "dt": 1}
        f = self._fault(r, DIR_READ_FAULTS)
        if f:
            rd["fault"] = f
        q.append(rd)
        return self._after(st)

    def _gen_gpx(self, r, s, q, one=True):
        n = r.choice([1, 1, 2, 3])
        tracks = [self._gen_track(r, "GEO") for _ in range(n)]
        if one:
            path = self._path(r, s, "g", ".gpx", 2)
        else:
            path = "/sim/shared/d0" if (self.cfg["shared"] and r.random() < 0.3) \
                else "/sim/u%d/d%d" % (s, r.randrange(2))
            for i, t in enumerate(tracks):      # few distinct names: overwrites happen
                t["tid"] = r.choice([100, 101, 102, 103, 104]) if r.random() < 0.5 else t["tid"]
            seen = set()
            tracks = [t for t in tracks if not (t["tid"] in seen or seen.add(t["tid"]))]
        st = {"op": "write_gpx", "path": path, "tracks": tracks, "af": r.random() < 0.4,
              "one_file": one, "coll": (n > 1) or r.random() < 0.3}
        if one and r.random() < 0.25:
            # the first track object is kept by its user and written again, as CSV, a few steps later
            st["keep"] = True
            p2 = self._path(r, s, "f", ".csv")
            q.append({"op": "write_csv", "path": p2, "track": tracks[0], "ids": [0, 1, 2, 3], "sep": ",", "h": 0,
                      "reuse": True, "s": s, "dt": 2})
            q.append({"op": "set_read_format", "fmt": "@file:" + p2, "s": s, "dt": 0})
            q.append({"op": "read_csv", "path": p2, "api": "csv", "s": s, "dt": 1})
        f = self._fault(r, WRITE_FAULTS)
        if f:
            st["fault"] = f
        q.append({"op": "set_read_format", "fmt": r.choice(GPX_OK_READ) if r.random() < 0.2 else GPX_FMT,
                  "s": s, "dt": 0})
        rd = {"op": "read_gpx" if one else "read_gpx_dir", "path": path, "s": s, "dt": 1}
        if one and r.random() < 0.3:
            rd["api"] = "shared"
        if not one:
            rd["ls"] = r.randrange(1000)
        f = self._fault(r, READ_FAULTS if one else DIR_READ_FAULTS)
        if f:
            rd["fault"] = f
        q.append(rd)
        return self._after(st)

    def _gen_gpxdir(self, r, s, q):
        return self._gen_gpx(r, s, q, one=False)

    def _gen_net(self, r, s, q):
        path = self._path(r, s, "n", ".csv", 2)
        st = {"op": "write_network", "path": path, "net": self._gen_net_spec(r),
              "sep": r.choice([",", ";"]), "h": 0 if r.random() < 0.3 else 1}
        f = self._fault(r, WRITE_FAULTS)
        if f:
            st["fault"] = f
        rd = {"op": "read_network" if r.random() < 0.75 else "read_net_wkt", "path": path, "s": s, "dt": 1,
              "api": r.choice(["dict", "dict", "named", "named_custom"])}
        f = self._fault(r, READ_FAULTS)
        if f:
            rd["fault"] = f
        q.append(rd)
        return st

    def _gen_wkt(self, r, s, q):
        return {"op": "wkt_roundtrip", "track": self._gen_track(r, r.choice(["ENU", "GEO"]))}

    def _gen_setfmt(self, r, s, q):
        return {"op": r.choice(["set_read_format", "set_print_format"]),
                "fmt": r.choice(self.cfg["formats"])}

    def _gen_mkfmt(self, r, s, q):
        gpx = sorted(p for p, e in self.cat.items() if e["type"] == "gpx" and e["state"] == "acked")
        if gpx and r.random() < 0.3:
            # a GPX format object built now, used some steps later (after the formats may have changed)
            path = r.choice(gpx)
            q.append({"op": "set_read_format", "fmt": GPX_FMT, "s": s, "dt": 3})
            q.append({"op": "read_gpx", "path": path, "api": "obj", "obj": "gf", "s": s, "dt": 1})
            return {"op": "make_format", "name": "gf", "path": path, "gpx": True}
        cands = sorted(p for p, e in self.cat.items() if e["type"] == "csv")
        if not cands:
            return self._gen_setfmt(r, s, q)
        path = r.choice(cands)
        name = "tf%d" % r.randrange(2)
        if r.random() < 0.6:
            others = [p for p in cands if p != path]
            if others and r.random() < 0.5:
                # the same format object is first used on a file it does not describe
                q.append({"op": "read_mismatch", "path": r.choice(others), "obj": name, "s": s, "dt": 1})
            q.append({"op": "read_csv", "path": path, "api": "obj", "obj": name, "s": s, "dt": 5})
        return {"op": "make_format", "name": name, "path": path, "explicit": r.random() < 0.3}

    def _gen_tz(self, r, s, q):
        st = {"op": "time_with_zone", "t": self._gen_time(r), "zone": r.choice([0, 0, 1, -5])}
        f = self._fault(r, ("interrupt",))
        if f:
            f["at"] = int(round(10 ** r.uniform(0, 2)))
            st["fault"] = f
        return self._after(st)

    def _gen_query(self, r, s, q):
        if r.random() < 0.5:
            # a time stamp that stops before its seconds (a one-minute logger), parsed with whatever the
            # process reads with at that moment: refused, or read as it can be -- never a change of the format
            return {"op": "parse_short", "text": r.choice(["2020-06-30T23:59", "30/06/2020 23:59", "2020-06-30 23:59",
                                                           "20200630235", "23:59 30-06-2020", "06/30/2020 23:5"])}
        return {"op": "query_refused", "track": self._gen_track(r, "ENU"), "summary": r.choice([None, "empty", "full"])}

    def _gen_clock(self, r, s, q):
        if r.random() < 0.5:
            return {"op": "clock_jump", "to": r.choice([1577836799, 1582934400, 946684799, 4102444799, 0])}
        return {"op": "clock_jump", "delta": r.choice([-1, 1]) * int(10 ** r.uniform(0, 9))}

    def _gen_reread(self, r, s, q):
        cands = sorted(p for p, e in self.cat.items() if e["state"] == "acked")
        if not cands:
            return self._gen_setfmt(r, s, q)
        path = r.choice(cands)
        e = self.cat[path]
        if e["type"] == "csv":
            api = r.choice(["csv", "file", "file_tf"])
            rd = {"op": "read_csv", "path": path, "api": api}
            if api != "file_tf" and e["ids"][3] >= 0 and r.random() < 0.8:
                q.append(dict(rd, s=s, dt=1))
                return {"op": "set_read_format", "fmt": "@file:" + path}
            return rd
        if e["type"] == "gpx":
            q.append({"op": "read_gpx", "path": path, "s": s, "dt": 1})
            return {"op": "set_read_format", "fmt": GPX_FMT}
        if e["type"] == "net":
            return {"op": "read_network", "path": path}
        return self._gen_setfmt(r, s, q)

    def _gen_read_unknown(self, r, s, q):
        cands = sorted(p for p, e in self.cat.items() if e["state"] != "acked")
        if not cands:
            return self._gen_reread(r, s, q)
        return {"op": "read_unknown", "path": r.choice(cands), "tf": r.choice(FORMATS)}

    # ------------------------------------------------------------ real objects
    def _track(self, spec):
        from tracklib.core import Track, Obs, ObsTime, makeCoords
        t = Track([], 1, spec.get("tid", 0))
        for x, y, z, tf in spec["obs"]:
            t.addObs(Obs(makeCoords(x, y, z, spec["kind"]), ObsTime(*tf)))
        if "af" in spec:
            t.createAnalyticalFeature(spec.get("afname", "a"), spec["af"])
        return t

    def _track_conv(self, spec):
        """Track built geographic and converted in place through spec["conv"]; returns the
        track and the specification of what it holds when it is written (coordinates read
        from the real object: the conversions themselves are C14's subject, not judged)."""
        if "conv" not in spec:
            return self._track(spec), spec
        t = self._track(dict(spec, kind="GEO"))
        for k in spec["conv"]:
            _, exc = self.call(t.toECEFCoords if k == "ECEF" else t.toGeoCoords)
            if exc is not None:
                raise Skip()
        eff = dict(spec)
        eff.pop("conv")
        eff["obs"] = [[o.position.getX(), o.position.getY(), o.position.getZ(), list(old[3])]
                      for o, old in zip(t, spec["obs"])]
        self.probe("track_converted_in_place_before_writing")
        return t, eff

    def _network(self, spec):
        from tracklib.core import Track, Obs, Network, Node, Edge, makeCoords
        net = Network()
        k = spec["kind"]
        for eid, a, b, o, pts in spec["edges"]:
            e = Edge(eid, Track([Obs(makeCoords(x, y, 0, k)) for x, y in pts]))
            e.orientation = o
            e.weight = e.geom.length()
            net.addEdge(e, Node(a, makeCoords(pts[0][0], pts[0][1], 0, k)),
                        Node(b, makeCoords(pts[-1][0], pts[-1][1], 0, k)))
        return net

    # --------------------------------------------------------------- execution
    def _big(self, st):
        """More than 1500 observations are written / read by this step."""
        n = 0
        for t in ([st["track"]] if isinstance(st.get("track"), dict) else []) + list(st.get("tracks") or []):
            n += len(t.get("obs", []))
        e = self.cat.get(st.get("path"))
        if e:
            for t in ([e["track"]] if isinstance(e.get("track"), dict) else []) + list(e.get("tracks") or []):
                n += len(t.get("obs", []))
        return n > 1500

    def _begin(self, st):
        self.clock.t += int(st.get("dt", 0))
        self.sim_seconds += abs(int(st.get("dt", 0)))
        fault = st.get("fault")
        if fault and fault.get("kind") == "interrupt" and self._big(st):
            fault = None        # line tracing a 9000-fix write takes longer than the step watchdog allows
        self.fs.plan.arm(fault)
        self.fs.ls_seed = st.get("ls", 0)
        if fault:
            self.stats["fault_armed:" + fault["kind"]] += 1

    def _io_call(self, st, fn, *a, **k):
        """Run one real I/O call under the armed fault."""
        self._begin(st)
        plan = self.fs.plan
        if plan.kind == "interrupt":
            with simfs.Interrupter(plan):
                rv, exc = self.call(fn, *a, **k)
        else:
            rv, exc = self.call(fn, *a, **k)
        self.fs.sync()
        fired = plan.fired
        kind = plan.kind
        if fired:
            self.stats["fault_fired:" + kind] += 1
            self.faults_so_far += 1
        elif kind:
            self.stats["fault_not_reached:" + kind] += 1
        plan.clear()
        return rv, exc, (kind if fired else None)

    def _crash(self, st, touched):
        torn = self.fs.crash(st["fault"].get("keep", 1.0))
        for p in set(torn) | set(touched):
            self._unknown(p)
        self.objs.clear()                 # every in-memory object of every session is gone
        self.opts.clear()
        simfs.reset_globals()             # emulated restart: import-time globals
        self.fmt_read = DEFAULT
        self.fmt_print = DEFAULT
        self.pending.clear()
        self.probe("crash_restart")

    def _unknown(self, path):
        e = self.cat.get(path)
        if e is None:
            e = self.cat[path] = {"type": "unknown"}
        e["state"] = "unknown"

    def _write_outcome(self, st, exc, fired, touched, oracle):
        """Common acknowledgement logic of the write steps.  Returns True when
        the write is acknowledged."""
        if exc is None:
            if fired:
                self.probe("fault_swallowed_by_call")
            return True
        if isinstance(exc, SimCrash):
            self._crash(st, touched)
            self._outcome = "fault"
            return False
        for p in touched:
            self._unknown(p)
        if fired:
            self._outcome = "fault"
            return False
        self._outcome = "raised"
        self.fail("C13", oracle, "write of a valid request raised %s: %s" % (type(exc).__name__, exc),
                  "normal return", repr(exc))
        return False

    def _read_outcome(self, exc, fired, oracle):
        """True when the read returned normally and must be judged."""
        if exc is None:
            return True
        if fired:
            self._outcome = "fault"
            return False
        self._outcome = "raised" if not isinstance(exc, SystemExit) else "exit"
        self.fail("C13", oracle, "read of an acknowledged intact file raised %s: %s"
                  % (type(exc).__name__, exc), "normal return", repr(exc))
        return False

    # -- format setters -----------------------------------------------------------
    def _resolve_fmt(self, f):
        if f.startswith("@file:"):
            e = self.cat.get(f[6:])
            if not e or "print_fmt" not in e:
                raise Skip()
            return e["print_fmt"]
        if f.startswith("@dir:"):
            es = [e for p, e in self.cat.items() if p.startswith(f[5:] + "/") and "print_fmt" in e]
            if not es:
                raise Skip()
            return es[0]["print_fmt"]
        return f

    def op_set_read_format(self, st):
        from tracklib.core.obs_time import ObsTime
        f = self._resolve_fmt(st["fmt"])
        self._begin(st)
        ObsTime.setReadFormat(f)
        self.fmt_read = f
        self.observed(f)

    def op_set_print_format(self, st):
        from tracklib.core.obs_time import ObsTime
        f = self._resolve_fmt(st["fmt"])
        self._begin(st)
        ObsTime.setPrintFormat(f)
        self.fmt_print = f
        self.observed(f)

    def op_parse_short(self, st):
        from tracklib.core.obs_time import ObsTime
        self._begin(st)
        _, exc = self.call(ObsTime.readTimestamp, st["text"])
        if exc is not None and not isinstance(exc, Exception):
            self.fail("C13", "csv.read.raised", "ObsTime.readTimestamp(%r) ended in %r" % (st["text"], exc))
            return "raised"
        self.probe("short_time_stamp_parsed" if exc is None else "short_time_stamp_refused")
        self.observed(None if exc is None else type(exc).__name__)
        return "rejected" if exc is not None else "ok"

    def op_query_refused(self, st):
        """Another part of the library that knows the time formats: Track.query with a condition on a field
        the track does not have is refused; the global formats stay what they were."""
        tr = self._track(st["track"])
        self._begin(st)
        _, exc = self.call(tr.query, "SELECT * WHERE zz_no_such_field > 3")
        if exc is not None and not isinstance(exc, Exception):
            self.fail("C13", "csv.read.raised", "Track.query ended in %r" % (exc,))
            return "raised"
        self.probe("query_refused" if exc is not None else "query_not_refused")
        if st.get("summary"):
            # ... and one that prints times: Track.summary(), of this track or of one without observations
            import io as _io
            import contextlib
            from tracklib.core import Track
            with contextlib.redirect_stdout(_io.StringIO()):
                _, exc2 = self.call((Track() if st["summary"] == "empty" else tr).summary)
            if exc2 is not None and not isinstance(exc2, Exception):
                self.fail("C13", "csv.read.raised", "Track.summary ended in %r" % (exc2,))
                return "raised"
            self.probe("summary_%s" % st["summary"])
        self.observed(None if exc is None else type(exc).__name__)
        return "rejected" if exc is not None else "ok"

    def op_clock_jump(self, st):
        self._begin(st)
        if "to" in st:
            self.clock.t = int(st["to"])
        else:
            self.clock.t = max(0, min(4102444799, self.clock.t + int(st["delta"])))
        self.stats["fault_fired:clock_jump"] += 1
        self.observed(self.clock.t)

    def op_time_with_zone(self, st):
        from tracklib.core.obs_time import ObsTime
        t = ObsTime(*st["t"], zone=st.get("zone", 0))
        self._outcome = "ok"
        rv, exc, fired = self._io_call(st, t.timeWithZone)
        if exc is not None and not fired:
            self.fail("C13", "timeWithZone.raised", "timeWithZone raised %r" % (exc,))
            return "raised"
        self.observed(rv)
        return "fault" if fired else "ok"

    # -- CSV ------------------------------------------------------------------------
    def _years_fit(self, specs, ids):
        """A print format with two-digit years only describes instants of the years 2000..2099."""
        if "2Y" in self.fmt_print and ids[3] >= 0:
            if any(not (2000 <= o[3][0] <= 2099) for sp in specs for o in sp["obs"]):
                raise Skip()
            self.probe("two_digit_years_written")

    def op_write_csv(self, st):
        from tracklib.io.track_writer import TrackWriter
        self._years_fit([st["track"]], st["ids"])
        track, eff = self._track_conv(st["track"])
        if st.get("reuse"):
            kept = self.objs.get((st.get("s", 0), "kept"))
            if kept is None or kept["spec"] != st["track"]:
                raise Skip()
            track, eff = kept["obj"], kept["spec"]          # the very object that was written before
            self.probe("same_track_object_written_again_in_another_format")
        ids = st["ids"]
        self._outcome = "ok"
        if st["path"] in self.cat and self.cat[st["path"]]["state"] == "acked":
            self.probe("overwrite_acked_file")
        if st.get("pre_export"):
            # the same track object is first exported by another writer of the library (KML file, GeoJSON
            # text): neither may leave a trace on the track or on the global formats
            how = st["pre_export"]
            if how == "kml":
                _, exc0 = self.call(TrackWriter.writeToKml, track, "/sim/u%d/export.kml" % st.get("s", 0),
                                    "POINT" if len(eff["obs"]) % 2 else "LINE")
            else:
                _, exc0 = self.call(TrackWriter.exportToGeojson, track, "POINT" if len(eff["obs"]) % 2 else "LINE")
            if exc0 is not None and not isinstance(exc0, Exception):
                self.fail("C13", "csv.write.raised", "export of the track (%s) before the CSV write ended in %r" % (how, exc0))
                return "raised"
            self.probe("track_exported_by_another_writer_first")
        if st.get("wapi") == "tocsv":
            from tracklib.io.track_format import TrackFormat
            tf, exc0 = self.call(TrackFormat, {"ext": "CSV", "id_E": ids[0], "id_N": ids[1], "id_U": ids[2],
                                               "id_T": ids[3], "separator": st["sep"], "header": st.get("h", 0)})
            if exc0 is not None:
                self.fail("C13", "trackformat.raised", "TrackFormat(dict) raised %r" % (exc0,))
                return "raised"
            if st.get("waf"):
                tf.af_names = [eff.get("afname", "a")]
            rv, exc, fired = self._io_call(st, TrackWriter.writeToCsv, track, st["path"], tf)
        elif st.get("wapi") == "defaults":
            self.probe("write_with_default_layout")
            rv, exc, fired = self._io_call(st, TrackWriter.writeToFile, track, st["path"])
        else:
            extra = ([eff.get("afname", "a")],) if st.get("waf") and "af" in eff else ()
            rv, exc, fired = self._io_call(st, TrackWriter.writeToFile, track, st["path"], ids[0], ids[1],
                                           ids[2], ids[3], st["sep"], st.get("h", 0), *extra)
        if self._write_outcome(st, exc, fired, [st["path"]], "csv.write.raised"):
            if st.get("waf") and "af" in eff:
                self.probe("csv_written_with_a_feature_column")
            self.cat[st["path"]] = {"type": "csv", "state": "acked", "track": eff, "ids": ids,
                                    "sep": st["sep"], "h": st.get("h", 0), "waf": bool(st.get("waf") and "af" in eff),
                                    "print_fmt": self.fmt_print, "owner": st.get("s", 0)}
            if st.get("h", 0):
                self.probe("csv_header_option")
        self.observed(self.fs.files.get(st["path"]))
        return self._outcome

    def _trackformat_dict(self, e, with_time_fmt):
        d = {"ext": "CSV", "id_E": e["ids"][0], "id_N": e["ids"][1], "id_U": e["ids"][2],
             "id_T": e["ids"][3], "separator": e["sep"], "header": e["h"], "srid": e["track"]["kind"]}
        if with_time_fmt:
            d["time_fmt"] = e["print_fmt"]
        return d

    def op_make_format(self, st):
        from tracklib.io.track_format import TrackFormat
        e = self.cat.get(st["path"])
        if st.get("gpx"):
            if not e or e["type"] != "gpx":
                raise Skip()
            self._begin(st)
            rv, exc = self.call(TrackFormat, {"ext": "GPX"})
            if exc is not None:
                self.fail("C13", "trackformat.raised", "TrackFormat({'ext': 'GPX'}) raised %r" % (exc,))
                return "raised"
            self.objs[(st.get("s", 0), st["name"])] = {"obj": rv, "path": st["path"], "gpx": True,
                                                       "time_fmt": self.fmt_read}
            self.observed(st["name"])
            return
        if not e or e["type"] != "csv":
            raise Skip()
        self._begin(st)
        rv, exc = self.call(TrackFormat, self._trackformat_dict(e, st.get("explicit", False)))
        if exc is not None:
            self.fail("C13", "trackformat.raised", "TrackFormat(dict) raised %r" % (exc,))
            return "raised"
        self.objs[(st.get("s", 0), st["name"])] = {
            "obj": rv, "path": st["path"], "ids": list(e["ids"]), "sep": e["sep"], "h": e["h"],
            "kind": e["track"]["kind"],
            "time_fmt": e["print_fmt"] if st.get("explicit") else self.fmt_read}
        self.observed(st["name"])

    def op_read_csv(self, st):
        from tracklib.io.track_reader import TrackReader
        from tracklib.io.track_format import TrackFormat
        e = self.cat.get(st["path"])
        if not e or e["type"] != "csv" or e["state"] != "acked":
            raise Skip()
        ids, kind, use_t = e["ids"], e["track"]["kind"], e["ids"][3] >= 0
        api = st.get("api", "csv")
        self._outcome = "ok"
        if api == "obj":
            o = self.objs.get((st.get("s", 0), st.get("obj")))
            if o is not None and o.get("gpx"):
                raise Skip()
            if o is None or o["path"] != st["path"] or o["ids"] != list(ids) or o["sep"] != e["sep"] \
                    or o["h"] != e["h"] or o["kind"] != kind:
                raise Skip()
            if use_t and o["time_fmt"] != e["print_fmt"]:
                raise Skip()
            if o["time_fmt"] != self.fmt_read:
                self.probe("stale_format_object_other_global")
            self.probe("format_object_built_earlier")
            rv, exc, fired = self._io_call(st, TrackReader.readFromFile, st["path"], o["obj"])
        elif api == "shared":
            # the user keeps ONE option dictionary and updates it before every read; he never sets
            # srid in it and relies on the documented default of the extension (CSV: ENU, GPX: GEO)
            if kind != "ENU" or (use_t and self.fmt_read != e["print_fmt"]):
                raise Skip()
            d = self.opts.setdefault(st.get("s", 0), {})
            d.update({"ext": "CSV", "id_E": ids[0], "id_N": ids[1], "id_U": ids[2], "id_T": ids[3],
                      "separator": e["sep"], "header": e["h"]})
            tf, exc0 = self.call(TrackFormat, d)
            if exc0 is not None:
                self.fail("C13", "trackformat.raised", "TrackFormat(dict) raised %r" % (exc0,))
                return "raised"
            self.probe("option_dictionary_reused_between_reads")
            rv, exc, fired = self._io_call(st, TrackReader.readFromFile, st["path"], tf)
        elif api == "csv":
            if use_t and self.fmt_read != e["print_fmt"]:
                raise Skip()
            rv, exc, fired = self._io_call(
                st, TrackReader.readFromCsv, st["path"], ids[0], ids[1], ids[2], ids[3],
                separator=e["sep"], h=e["h"], srid=kind)
        else:
            explicit = api == "file_tf"
            if use_t and not explicit and self.fmt_read != e["print_fmt"]:
                raise Skip()
            if explicit and self.fmt_read != e["print_fmt"]:
                self.probe("explicit_time_fmt_differs_from_global")
            d = self._trackformat_dict(e, explicit)
            if st.get("read_all") and e.get("waf") and e["h"] >= 1:
                d["read_all"] = True
                self.probe("csv_feature_columns_read_back")
            tf, exc0 = self.call(TrackFormat, d)
            if exc0 is not None:
                self.fail("C13", "trackformat.raised", "TrackFormat(dict) raised %r" % (exc0,))
                return "raised"
            rv, exc, fired = self._io_call(st, TrackReader.readFromFile, st["path"], tf)
        if fired:
            self.probe("read_under_fault")
        if self._read_outcome(exc, fired, "csv.read.raised"):
            self._judge_track("csv", e["track"], rv, ids[2] >= 0, use_t, e)
        return self._outcome

    def op_write_csv_dir(self, st):
        from tracklib.io.track_writer import TrackWriter
        from tracklib.core import TrackCollection
        self._years_fit(st["tracks"], st["ids"])
        coll = TrackCollection([self._track(t) for t in st["tracks"]])
        ids = st["ids"]
        paths = ["%s/track_output_%d.csv" % (st["path"], i) for i in range(len(st["tracks"]))]
        self._outcome = "ok"
        rv, exc, fired = self._io_call(st, TrackWriter.writeToFiles, coll, st["path"], "csv",
                                       ids[0], ids[1], ids[2], ids[3], st["sep"], 0)
        if self._write_outcome(st, exc, fired, paths, "csvdir.write.raised"):
            for p, t in zip(paths, st["tracks"]):
                self.cat[p] = {"type": "csv", "state": "acked", "track": t, "ids": ids, "sep": st["sep"],
                               "h": 0, "print_fmt": self.fmt_print, "owner": st.get("s", 0)}
        self.observed([self.fs.files.get(p) for p in paths])
        return self._outcome

    def op_read_csv_dir(self, st):
        from tracklib.io.track_reader import TrackReader
        from tracklib.io.track_format import TrackFormat
        d = st["path"]
        files = sorted(p for p in self.fs.files if p.startswith(d + "/"))
        if not files:
            raise Skip()
        es = [self.cat.get(p) for p in files]
        if any(e is None or e["state"] != "acked" or e["type"] != "csv" for e in es):
            raise Skip()
        e0 = es[0]
        same = all(e["ids"] == e0["ids"] and e["sep"] == e0["sep"] and e["h"] == e0["h"]
                   and e["track"]["kind"] == e0["track"]["kind"]
                   and e["print_fmt"] == e0["print_fmt"] for e in es)
        if not same:
            raise Skip()                       # one format cannot match all files
        if e0["ids"][3] >= 0 and self.fmt_read != e0["print_fmt"]:
            raise Skip()
        self._outcome = "ok"
        tf, exc0 = self.call(TrackFormat, self._trackformat_dict(e0, False))
        if exc0 is not None:
            self.fail("C13", "trackformat.raised", "TrackFormat(dict) raised %r" % (exc0,))
            return "raised"
        rv, exc, fired = self._io_call(st, TrackReader.readFromFile, d, tf)
        if self._read_outcome(exc, fired, "csvdir.read.raised"):
            self.probe("directory_read_csv")
            self._judge_collection("csvdir", [e["track"] for e in es], rv, e0["ids"][2] >= 0,
                                   e0["ids"][3] >= 0, ordered=False, entry=e0)
        return self._outcome

    # -- GPX ------------------------------------------------------------------------
    def op_write_gpx(self, st):
        from tracklib.io.track_writer import TrackWriter
        from tracklib.core import TrackCollection
        tracks = [self._track(t) for t in st["tracks"]]
        if st.get("keep"):
            self.objs[(st.get("s", 0), "kept")] = {"obj": tracks[0], "spec": st["tracks"][0], "gpx": True,
                                                   "path": None, "time_fmt": None}
        arg = TrackCollection(tracks) if (st.get("coll") or len(tracks) > 1) else tracks[0]
        one = st["one_file"]
        paths = [st["path"]] if one else ["%s/%s.gpx" % (st["path"], t["tid"]) for t in st["tracks"]]
        self._outcome = "ok"
        rv, exc, fired = self._io_call(st, TrackWriter.writeToGpx, arg, st["path"],
                                       af=st.get("af", False), oneFile=one)
        if fired:
            self.probe("fault_in_format_borrowing_write")
        if self._write_outcome(st, exc, fired, paths, "gpx.write.raised"):
            if one:
                self.cat[st["path"]] = {"type": "gpx", "state": "acked", "tracks": st["tracks"],
                                        "owner": st.get("s", 0)}
            else:
                for p, t in zip(paths, st["tracks"]):
                    if p in self.cat and self.cat[p]["state"] == "acked":
                        self.probe("overwrite_acked_file")
                    self.cat[p] = {"type": "gpx", "state": "acked", "tracks": [t], "owner": st.get("s", 0)}
        self.observed([self.fs.files.get(p) for p in paths])
        return self._outcome

    def op_read_gpx(self, st):
        from tracklib.io.track_reader import TrackReader
        e = self.cat.get(st["path"])
        if not e or e["type"] != "gpx" or e["state"] != "acked":
            raise Skip()
        if self.fmt_read not in GPX_OK_READ:
            raise Skip()
        self._outcome = "ok"
        if st.get("api") == "obj":
            o = self.objs.get((st.get("s", 0), st.get("obj")))
            if o is None or not o.get("gpx"):
                raise Skip()
            if o["time_fmt"] != self.fmt_read:
                self.probe("stale_format_object_other_global")
            self.probe("format_object_built_earlier")
            rv, exc, fired = self._io_call(st, TrackReader.readFromFile, st["path"], o["obj"])
        elif st.get("api") == "shared":
            from tracklib.io.track_format import TrackFormat
            d = self.opts.setdefault(st.get("s", 0), {})
            d.update({"ext": "GPX"})
            tf, exc0 = self.call(TrackFormat, d)
            if exc0 is not None:
                self.fail("C13", "trackformat.raised", "TrackFormat(dict) raised %r" % (exc0,))
                return "raised"
            self.probe("option_dictionary_reused_between_reads")
            rv, exc, fired = self._io_call(st, TrackReader.readFromFile, st["path"], tf)
        else:
            rv, exc, fired = self._io_call(st, TrackReader.readFromGpx, st["path"])
        if self._read_outcome(exc, fired, "gpx.read.raised"):
            self._judge_collection("gpx", e["tracks"], rv, True, True, ordered=True)
        return self._outcome

    def op_read_gpx_dir(self, st):
        from tracklib.io.track_reader import TrackReader
        d = st["path"]
        files = sorted(p for p in self.fs.files if p.startswith(d + "/"))
        if not files:
            raise Skip()
        es = [self.cat.get(p) for p in files]
        if any(e is None or e["state"] != "acked" or e["type"] != "gpx" for e in es):
            raise Skip()
        if self.fmt_read not in GPX_OK_READ:
            raise Skip()
        self._outcome = "ok"
        rv, exc, fired = self._io_call(st, TrackReader.readFromGpx, d)
        if self._read_outcome(exc, fired, "gpxdir.read.raised"):
            self.probe("directory_read_gpx")
            exp = [t for e in es for t in e["tracks"]]
            self._judge_collection("gpxdir", exp, rv, True, True, ordered=False)
        return self._outcome

    # -- networks -------------------------------------------------------------------
    def op_write_network(self, st):
        from tracklib.io.network_writer import NetworkWriter
        net = self._network(st["net"])
        self._outcome = "ok"
        rv, exc, fired = self._io_call(st, NetworkWriter.writeToCsv, net, st["path"], st["sep"], st["h"])
        if self._write_outcome(st, exc, fired, [st["path"]], "net.write.raised"):
            self.cat[st["path"]] = {"type": "net", "state": "acked", "net": st["net"], "sep": st["sep"],
                                    "h": st["h"], "owner": st.get("s", 0)}
            if not st["h"]:
                self.probe("net_header_zero")
        self.observed(self.fs.files.get(st["path"]))
        return self._outcome

    def op_read_network(self, st):
        from tracklib.io.network_reader import NetworkReader
        from tracklib.io.network_format import NetworkFormat
        e = self.cat.get(st["path"])
        if not e or e["type"] != "net" or e["state"] != "acked":
            raise Skip()
        self._outcome = "ok"
        api = st.get("api", "dict")
        custom = False
        if api in ("named", "named_custom") and e["sep"] == "," and e["h"] == 1:
            # the layout of the network writer is a named format of the resource file: IGN (ENU) / IGNGEO
            name = "IGN" if e["net"]["kind"] == "ENU" else "IGNGEO"
            fmt, exc0 = self.call(NetworkFormat, name)
            self.probe("network_read_with_a_named_format")
            if exc0 is None and api == "named_custom":
                fmt.pos_direction = -1          # this user's own format object: he wants every road two-way
                custom = True
        else:
            fmt, exc0 = self.call(NetworkFormat, {"pos_edge_id": 0, "pos_source": 1, "pos_target": 2,
                                                 "pos_direction": 3, "pos_wkt": 4, "separator": e["sep"],
                                                 "header": e["h"], "srid": e["net"]["kind"]})
        if exc0 is not None:
            self.fail("C13", "networkformat.raised", "NetworkFormat(dict) raised %r" % (exc0,))
            return "raised"
        rv, exc, fired = self._io_call(st, NetworkReader.readFromFile, st["path"], fmt, False)
        if self._read_outcome(exc, fired, "net.read.raised"):
            if custom:
                e = dict(e, net=dict(e["net"], edges=[[ed[0], ed[1], ed[2], 0, ed[4]] for ed in e["net"]["edges"]]))
            self._judge_network(e, rv)
        return self._outcome

    def op_read_net_wkt(self, st):
        """The WKT column of a written network file read back as tracks
        (TrackReader.readFromWkt): planimetric coordinates of every edge geometry."""
        from tracklib.io.track_reader import TrackReader
        e = self.cat.get(st["path"])
        if not e or e["type"] != "net" or e["state"] != "acked":
            raise Skip()
        self._outcome = "ok"
        rv, exc, fired = self._io_call(st, TrackReader.readFromWkt, st["path"], 4, -1, 0, e["sep"], e["h"])
        if self._read_outcome(exc, fired, "netwkt.read.raised"):
            held = self._net_edges(e["net"])
            exp = [[list(p) for p in ed[4]] for ed in held]
            got = [[[o.position.getX(), o.position.getY()] for o in rv.getTrack(i)] for i in range(rv.size())]
            ids = [str(rv.getTrack(i).tid) for i in range(rv.size())]
            self.observed(len(got))
            if got != exp:
                self.fail("C13", "netwkt.roundtrip.coords", "edge geometries read back as WKT tracks differ",
                          exp, got, file_h=e["h"])
            elif ids != [ed[0] for ed in held]:
                self.fail("C13", "netwkt.roundtrip.ids", "track identifiers read from the link_id column",
                          [ed[0] for ed in held], ids, file_h=e["h"])
            else:
                self.probe("roundtrip_ok_netwkt")
        return self._outcome

    # -- WKT (no disk) ---------------------------------------------------------------
    def op_wkt_roundtrip(self, st):
        from tracklib.io.track_reader import TrackReader
        t = self._track(st["track"])
        self._begin(st)
        txt, exc = self.call(t.toWKT)
        if exc is not None:
            self.fail("C13", "wkt.write.raised", "toWKT raised %r" % (exc,))
            return "raised"
        rv, exc = self.call(TrackReader.parseWkt, txt)
        if exc is not None:
            self.fail("C13", "wkt.read.raised", "parseWkt raised %r on %r" % (exc, txt))
            return "raised"
        exp = [[o[0], o[1]] for o in st["track"]["obs"]]
        got = [[o.position.getX(), o.position.getY()] for o in rv]
        self.observed(got)
        if got != exp:
            self.fail("C13", "wkt.coords", "WKT round trip changed planimetric coordinates", exp, got)

    def op_read_mismatch(self, st):
        """A format object built for one file is used on another CSV file (other column
        layout, maybe fewer columns).  What such a read returns is nobody's promise -- it may
        raise, it may return nonsense -- and it is not judged; the format object belongs to
        the caller and is used again afterwards on the file it describes."""
        from tracklib.io.track_reader import TrackReader
        e = self.cat.get(st["path"])
        o = self.objs.get((st.get("s", 0), st.get("obj")))
        if o is None or o.get("gpx") or e is None or e["type"] != "csv" or e["state"] != "acked" \
                or o["path"] == st["path"]:
            raise Skip()
        self._begin(st)
        rv, exc = self.call(TrackReader.readFromFile, st["path"], o["obj"])
        cls = "returned" if exc is None else ("exit" if isinstance(exc, SystemExit) else "raised")
        self.stats["mismatched_read:" + cls] += 1
        self.stats["fault_fired:mismatched_format"] += 1
        self.probe("format_object_used_on_a_file_it_does_not_describe")
        self.observed(cls)

    # -- reads that are recorded, never judged -----------------------------------------
    def op_read_unknown(self, st):
        """Read a file whose write was not acknowledged (torn, failed, crashed).
        C13 promises nothing about the result; what matters is that the process
        survives and that *later* steps still hold."""
        from tracklib.io.track_reader import TrackReader
        from tracklib.io.track_format import TrackFormat
        path = st["path"]
        e = self.cat.get(path)
        if e is None or e["state"] == "acked" or path not in self.fs.files:
            raise Skip()
        self._begin(st)
        if path.endswith(".gpx"):
            rv, exc = self.call(TrackReader.readFromGpx, path)
        else:
            tf, _ = self.call(TrackFormat, {"ext": "CSV", "id_E": 0, "id_N": 1, "id_U": 2, "id_T": 3,
                                            "separator": ",", "header": 0, "srid": "ENU",
                                            "time_fmt": st.get("tf", DEFAULT)})
            rv, exc = self.call(TrackReader.readFromFile, path, tf)
        self.probe("read_of_unacknowledged_file")
        cls = "returned" if exc is None else ("exit" if isinstance(exc, SystemExit) else "raised")
        self.stats["unknown_read:" + cls] += 1
        self.observed(cls)

    # ----------------------------------------------------------------- oracles
    def probe(self, name, n=1):
        World.probe(self, name, n)
        if name.startswith("roundtrip_ok_") and self.faults_so_far:
            # bounded liveness with a budget of zero steps: once faults have happened, every
            # later acknowledged write / read pair still round-trips
            World.probe(self, "roundtrip_ok_after_faults")

    def _tol(self, kind, fmt, axis="x"):
        """What C13 promises, not what the writers happen to do today: 1 mm for metric values
        (ENU, ECEF, and every height), 1e-8 degree for longitudes and latitudes."""
        if kind == "GEO" and axis in ("x", "y"):
            return 1.00001e-8
        return 1.00001e-3

    def _cmp_track(self, fmt, spec, got, use_u, use_t):
        """None when `got` equals the written track to the promised precision,
        else (oracle suffix, message, expected, observed)."""
        exp = spec["obs"]
        kind = spec["kind"]
        if got is None:
            return ("none", "reader returned None", len(exp), None)
        n = got.size()
        if n != len(exp):
            return ("count", "number of observations differs", len(exp), n)
        tol = self._tol(kind, fmt)
        for i, (x, y, z, tf) in enumerate(exp):
            o = got.getObs(i)
            p = o.position
            if type(p).__name__ != KIND_CLASS[kind]:
                return ("coordclass", "coordinate class differs at obs %d" % i, KIND_CLASS[kind],
                        type(p).__name__)
            gx, gy, gz = p.getX(), p.getY(), p.getZ()
            ez = z if use_u else 0.0
            for nm, ev, gv in (("x", x, gx), ("y", y, gy), ("z", ez, gz)):
                tol = self._tol(kind, fmt, nm)
                if not (abs(ev - gv) <= tol + abs(ev) * 4e-16):
                    return ("coords", "%s of obs %d differs beyond the written precision" % (nm, i),
                            [x, y, ez], [gx, gy, gz])
            t = o.timestamp
            gt = [t.year, t.month, t.day, t.hour, t.min, t.sec]
            et = list(tf[:6]) if use_t else [1970, 1, 1, 0, 0, 0]
            if gt != et:
                return ("timestamp", "timestamp of obs %d differs" % i, et, gt)
        return None

    def _detail(self, entry):
        from tracklib.core.obs_time import ObsTime
        d = {"belief_read": self.fmt_read, "belief_print": self.fmt_print,
             "global_read": ObsTime.getReadFormat(), "global_print": ObsTime.getPrintFormat()}
        if entry is not None:
            d["file_h"] = entry.get("h")
            d["file_print_fmt"] = entry.get("print_fmt")
        return d

    def _judge_track(self, fmt, spec, got, use_u, use_t, entry=None):
        from tracklib.core import TrackCollection
        if isinstance(got, TrackCollection):
            got = got.getTrack(0) if got.size() == 1 else None
        c = self._cmp_track(fmt, spec, got, use_u, use_t)
        self.observed("same" if c is None else c[0])
        if c is not None:
            self.fail("C13", "%s.roundtrip.%s" % (fmt, c[0]), c[1], c[2], c[3], **self._detail(entry))
        else:
            self.probe("roundtrip_ok_" + fmt)

    def _judge_collection(self, fmt, specs, got, use_u, use_t, ordered, entry=None):
        if got is None:
            self.fail("C13", fmt + ".roundtrip.none", "reader returned None", len(specs), None)
            return
        gl = [got.getTrack(i) for i in range(got.size())]
        if len(gl) != len(specs):
            self.observed("ntracks")
            self.fail("C13", fmt + ".roundtrip.ntracks", "number of tracks differs", len(specs), len(gl),
                      **self._detail(entry))
            return
        if ordered:
            for k, (sp, g) in enumerate(zip(specs, gl)):
                c = self._cmp_track(fmt, sp, g, use_u, use_t)
                if c is not None:
                    self.observed(c[0])
                    self.fail("C13", "%s.roundtrip.%s" % (fmt, c[0]), "track %d: %s" % (k, c[1]), c[2], c[3],
                              **self._detail(entry))
                    return
        else:
            free = list(gl)
            for k, sp in enumerate(specs):
                hit, first = None, None
                for g in free:
                    c = self._cmp_track(fmt, sp, g, use_u, use_t)
                    if c is None:
                        hit = g
                        break
                    first = first or c
                if hit is None:
                    self.observed(first[0])
                    self.fail("C13", "%s.roundtrip.%s" % (fmt, first[0]),
                              "written track %d has no counterpart among the tracks read: %s" % (k, first[1]),
                              first[2], first[3], **self._detail(entry))
                    return
                free.remove(hit)
        self.observed("same")
        self.probe("roundtrip_ok_" + fmt)

    @staticmethod
    def _net_edges(spec):
        """Edges a network built from `spec` holds: an identifier added twice keeps the place of
        its first insertion and the definition given last (the dictionary the writer iterates)."""
        last = {}
        for ed in spec["edges"]:
            last[ed[0]] = ed
        return list(last.values())

    def _judge_network(self, e, net):
        spec = e["net"]
        exp_edges = self._net_edges(spec)
        if len(exp_edges) != len(spec["edges"]):
            self.probe("network_with_a_replaced_edge")
        got_ids = list(net.getEdgesId())
        exp_ids = [ed[0] for ed in exp_edges]
        det = {"file_h": e["h"]}
        if got_ids != exp_ids:
            self.observed("edges")
            self.fail("C13", "net.roundtrip.edges", "edge identifiers differ", exp_ids, got_ids, **det)
            return
        exp_nodes = []
        for eid, a, b, o, pts in exp_edges:
            for v in (a, b):
                if v not in exp_nodes:
                    exp_nodes.append(v)
        if sorted(net.getNodesId()) != sorted(exp_nodes):
            self.observed("nodes")
            self.fail("C13", "net.roundtrip.nodes", "node identifiers differ", sorted(exp_nodes),
                      sorted(net.getNodesId()), **det)
            return
        pos = {}
        for eid, a, b, o, pts in exp_edges:
            pos.setdefault(a, pts[0])
            pos.setdefault(b, pts[-1])
        for eid, a, b, o, pts in exp_edges:
            ed = net.getEdge(eid)
            got = [ed.source.id, ed.target.id, ed.orientation,
                   [[q.position.getX(), q.position.getY()] for q in ed.geom]]
            if got != [a, b, o, pts]:
                self.observed("edge")
                self.fail("C13", "net.roundtrip.edge", "edge %s differs" % eid, [a, b, o, pts], got, **det)
                return
            if type(ed.geom.getObs(0).position).__name__ != KIND_CLASS[spec["kind"]]:
                self.fail("C13", "net.roundtrip.coordclass", "edge %s coordinate class" % eid,
                          KIND_CLASS[spec["kind"]], type(ed.geom.getObs(0).position).__name__)
                return
        for v, p in pos.items():
            c = net.getNode(v).coord
            if [c.getX(), c.getY()] != p:
                self.observed("nodepos")
                self.fail("C13", "net.roundtrip.nodepos", "position of node %s differs" % v, p,
                          [c.getX(), c.getY()], **det)
                return
        self.observed("same")
        self.probe("roundtrip_ok_net")
