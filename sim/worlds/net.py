"""World `net` (properties C06, C07, C10): query and map-matching histories on
long-lived, growing Network objects, checked after every step against an
independent multigraph model (Floyd-Warshall, polyline geometry).

Real: Network / Dijkstra / priority_dict / SpatialIndex / HMM / mapping /
geometry / network reader and writer.  Stub: the disk used by `reload` (SimFS).
"""
import math

from ..kernel import World, Skip, HarnessError, SimCrash
from .. import simfs

INF = float("inf")
MAP_TRACED = ("/tracklib/algo/mapping.py", "/tracklib/algo/dynamics.py")
C06_OPS = ("dist", "dist_all", "all_pairs", "prepare", "prepared")
C07_OPS = ("path", "path_multi", "forward", "backward")
C10_OPS = ("map", "remap", "map_span")
OTHER_OPS = ("add_edge", "add_node", "noise_net", "reload", "index", "simplify", "sub_network", "set_weight", "save_prep", "load_prep", "rescale", "abs_again", "set_routing", "save_index", "load_index", "break_weight", "inspect_edge", "annotate_edges", "load_copy", "geo_roundtrip")


def _wchoice(r, pairs):
    tot = sum(w for _, w in pairs)
    x = r.random() * tot
    for v, w in pairs:
        x -= w
        if x < 0:
            return v
    return pairs[-1][0]


def plen(pts):
    return sum(math.dist(a, b) for a, b in zip(pts, pts[1:]))


def pt_seg(p, a, b):
    ax, ay = a
    bx, by = b
    dx, dy = bx - ax, by - ay
    L = dx * dx + dy * dy
    if L == 0:
        return math.dist(p, a), 0.0
    u = max(0.0, min(1.0, ((p[0] - ax) * dx + (p[1] - ay) * dy) / L))
    return math.dist(p, (ax + u * dx, ay + u * dy)), u


def arcs_on_poly(p, pts, tol):
    """All arc lengths (from the first vertex) of points of the polyline within
    tol of p (a polyline may pass several times near p)."""
    out = []
    acc = 0.0
    best = INF
    for a, b in zip(pts, pts[1:]):
        d, u = pt_seg(p, a, b)
        best = min(best, d)
        if d <= tol:
            out.append(acc + u * math.dist(a, b))
        acc += math.dist(a, b)
    return best, out


class NetWorld(World):
    NAME = "net"
    PROPS = ("C06", "C07", "C10")
    FALSIFIERS = {"C06": C06_OPS, "C07": C07_OPS, "C10": C10_OPS}
    READ_ONLY_OPS = ("dist", "dist_all", "all_pairs", "prepared", "path", "path_multi")
    COMPONENTS = {
        "real": ["tracklib.core.Network (addEdge, routing forward/backward, prepare, distanceBtwPts, simplify)",
                 "tracklib.core.utils.priority_dict", "tracklib.core.SpatialIndex", "tracklib.algo.mapping",
                 "tracklib.algo.dynamics.HMM", "tracklib.util.geometry", "tracklib.io.NetworkWriter / NetworkReader",
                 "tracklib.core.Track (reverse, +, >) used to chain geometries"],
        "stub": ["disk used by the reload step: in-memory SimFS with fault plan",
                 "working directory of the process (debug file observation.dat of mapOnNetwork): SimFS behind "
                 "the module-level name open of tracklib.algo.mapping",
                 "stdout of tracklib: discarded"]}
    STATE_MEASURE = "per session: (nodes up to 4, edges up to 6, spatial index exists, prepared table exists, grown since prepare, exact dyadic weights)"
    ASSUMPTIONS = [
        "sessions interleave at whole-API-call granularity (module globals of mapping are rebuilt per call)",
        "explicit weights are small dyadic rationals (sums exact); after a reload weights are geometric lengths and "
        "distances are compared to 1e-9 relative",
        "single-pair queries with a finite cut-off are not generated (C06's cut-off sentence is about the all-pairs table)",
        "the prepared table is modelled exactly (documented accumulation); a network in A* mode or with a weight that "
        "is not a number is recorded, not judged, until it is back in Dijkstra mode / repaired",
        "which edges sub_network keeps, which vertices simplify keeps and what rescaling computes are adopted, not judged; "
        "networks sharing their Edge objects (an extract and its parent) are one group: neither is re-weighed or rescaled",
        "mixed integer / text identifiers in one network and a half-failed addEdge are not generated (the unchanged "
        "tree does not support them)",
        "HMM optimality (C09) is not judged; only the geometric validity of every inferred state",
        "the reference model and oracles in /verif/sim/worlds/net.py are correct"]

    # ------------------------------------------------------------------ config
    @classmethod
    def draw_config(cls, r, focus):
        fam = {"C06": 1, "C07": 1, "C10": 1, "grow": 2}
        fam[focus] = r.choice([3, 5])
        if focus != "C10" and r.random() < 0.6:
            fam["C10"] = 0
        if focus == "C10":
            for k in ("C06", "C07"):
                if r.random() < 0.5:
                    fam[k] = 0
        road = focus == "C10" or r.random() < 0.25
        hub = (not road) and r.random() < 0.35
        if hub:
            fam["grow"] = 5                   # dense: the queue must hold many outdated entries
        return {"nsteps": (r.choice([8, 15, 30, 60, 100]) if not hub else r.choice([40, 60, 100]))
                if focus != "C10" else r.choice([8, 12, 20, 30]),
                "sessions": r.choice([1, 1, 2]), "fam": fam, "road": road,
                "max_nodes": r.choice([2, 3, 4, 6, 9, 12] * 4 + [40]), "zero_w": r.choice([0, 0.1, 0.3]),
                "loops": r.choice([0, 0.1]), "oneway": r.choice([0, 0.2, 0.5]),
                "reload": r.choice([0, 0, 0.03, 0.1]), "fault_rate": r.choice([0, 0, 0.2]),
                "grid": r.choice([2, 3, 4]), "step": r.choice([10.0, 25.0, 7.5]),
                "vertical_exact": r.choice([0, 0, 0.02]), "subnet": r.choice([0, 0.03, 0.1]),
                "int_ids": (not road) and r.random() < 0.3,
                "reweigh": r.choice([0, 0.05, 0.15]), "routing": r.choice([0, 0, 0.04, 0.1]),
                "empty_id": r.random() < 0.15, "travel_time": r.random() < 0.3, "dense": r.random() < 0.08, "np_types": r.random() < 0.1, "empty_eid": r.random() < 0.12,
                "lone": r.choice([0, 0, 0.04]),
                "tiny_w": (not road) and (not hub) and r.random() < 0.12,
                "tmode": r.choice(["inc", "inc", "rev", "same"]), "persist": r.choice([0, 0, 0.05, 0.12]),
                "rescale": r.choice([0, 0.05, 0.15]),
                "alt": r.choice([0.0, 0.0, 35.5]), "prep_cut": r.choice([None, None, 3.0, 10.0]),
                # hub mode: few nodes, many parallel edges whose weights decrease in insertion order
                # (many decrease-key operations and outdated entries in the priority queue)
                "hub": hub}

    @classmethod
    def deepen(cls, cfg, r):
        cfg["nsteps"] = min(cfg["nsteps"] * 2, 200)
        cfg["max_nodes"] = r.choice([12, 20, 30])
        cfg["grid"] = r.choice([4, 5, 6])
        if r.random() < 0.05 and not cfg["road"]:
            cfg["max_nodes"] = r.choice([70, 130])        # more junctions than any small table or cache would hold
            cfg["fam"]["grow"] = 6
            cfg["nsteps"] = 200

    # ------------------------------------------------------------------- setup
    def setup(self):
        import tracklib  # noqa: F401
        self.fs = simfs.SimFS()
        self.clock = simfs.SimClock(0)
        simfs.reset_globals()
        simfs.install(self.fs, self.clock)
        self.real = {}
        self.model = {}
        self.tracks = {}          # (session, slot) -> explicit track spec of the last mapping
        self.ecount = 0
        # Network.save_prep / load_prep persist the prepared table with numpy.save / numpy.load: the
        # name np of tracklib.core.network is a shim whose save / load go to the simulated disk
        import sys as _sys
        self._netmod = _sys.modules["tracklib.core.network"]
        self._real_np = self._netmod.np
        self._netmod.np = _NumpyShim(self._real_np, self.fs)
        # SpatialIndex.save / load pickle through the module-level name open of tracklib.core.spatial_index
        self._simod = _sys.modules["tracklib.core.spatial_index"]
        self._simod_open = self._simod.__dict__.get("open", None)
        self._simod.open = self.fs.open
        # debug mode of mapOnNetwork appends to "observation.dat" in the working directory: the
        # working directory of the simulated process is /sim/cwd on the simulated disk
        import sys
        self.fs.mkdir("/sim/cwd")
        self._mapping = sys.modules["tracklib.algo.mapping"]
        self._mapping_open = self._mapping.__dict__.get("open", None)
        fs = self.fs
        self._mapping.open = lambda path, mode="r", *a, **k: fs.open(
            path if path.startswith("/") else "/sim/cwd/" + path, mode, *a, **k)

    def teardown(self):
        self._netmod.np = self._real_np
        if self._simod_open is None:
            self._simod.__dict__.pop("open", None)
        else:
            self._simod.open = self._simod_open
        if self._mapping_open is None:
            self._mapping.__dict__.pop("open", None)
        else:
            self._mapping.open = self._mapping_open
        simfs.uninstall()
        simfs.reset_globals()

    def abstract_state(self):
        out = []
        for s in sorted(self.model):
            m = self.model[s]
            out.append((min(len(m["nodes"]), 4), min(len(m["edges"]), 6), m["index"] is not None,
                        m["prepared"] is not None, m["grown_since_prepare"], m["exact"]))
        return tuple(out)

    # ------------------------------------------------ invariant after every step
    # steps after which the labels of an earlier run_routing_forward are still the ones it left
    KEEPS_LABELS = ("backward", "prepared", "set_routing", "index", "map", "remap", "map_span", "save_prep",
                    "load_prep", "abs_again", "save_index", "load_index", "annotate_edges", "inspect_edge")

    def execute(self, step):
        s_ = step.get("s", 0)
        m_ = self.model.get(s_)
        keep = step["op"] in self.KEEPS_LABELS or (step["op"] == "sub_network" and step.get("mode") == "GEOMETRIC"
                                                   and step.get("to") is None)
        if m_ is not None and m_.get("fwd") and not keep and step["op"] != "forward":
            m_["fwd"] = None          # a search, a growth step, a reload ...: the labels are no longer those of the forward pass
        out = World.execute(self, step)
        if not self.violations and out[0] not in ("skipped", "hang"):
            saved = self.cur
            try:
                self._check_structure()
            except HarnessError:
                raise
            except Exception as e:  # noqa: BLE001 - reading the real networks is tracklib code
                import traceback
                tb = traceback.extract_tb(e.__traceback__)
                if not any("tracklib" in f.filename for f in tb):
                    raise
                self.fail(self.prop_of(step), "network.unreadable", "reading the networks after %s raised %s: %s"
                          % (step["op"], type(e).__name__, e), "readable networks", repr(e))
            self.cur = saved
        return out

    def _check_structure(self):
        """Every network of every session is, after every step, exactly what its own history
        made it: node and edge identifiers in insertion order, end nodes, orientation, weight,
        geometry and node positions.  Nothing a *query*, a matching or the other session does
        may show here (results handed to callers share no object with the network)."""
        self.cur = None            # never demoted to a note: a changed network is nobody's read-only query
        for s in sorted(self.model):
            net, m = self.real[s], self.model[s]
            ids = list(m["nodes"])
            got = net.getNodesId()
            if list(got) != ids:
                return self.fail("C06", "network.structure", "node identifiers of the network of session %d" % s,
                                 ids, list(got))
            eids = [e["id"] for e in m["edges"]]
            gote = net.getEdgesId()
            if list(gote) != eids:
                return self.fail("C06", "network.structure", "edge identifiers of the network of session %d" % s,
                                 eids, list(gote))
            # the positional indexes (used by the map-matcher and by the coordinate conversions)
            gi = list(net.getIndexNodes())
            if gi != ids or any(net.getNodeId(k) != ids[k] for k in range(len(ids))):
                return self.fail("C06", "network.structure", "positional index of the nodes of session %d" % s, ids, gi)
            if any(net.getEdgeId(k) != eids[k] for k in range(len(eids))):
                return self.fail("C06", "network.structure", "positional index of the edges of session %d" % s, eids,
                                 [net.getEdgeId(k) for k in range(len(eids))])
            # the identifier lists handed out belong to the caller, who uses them as work lists
            if isinstance(got, list):
                del got[:]
            if isinstance(gote, list):
                del gote[:]
            for e in m["edges"]:
                ed = net.getEdge(e["id"])
                got = [ed.source.id, ed.target.id, ed.orientation]
                if got != [e["s"], e["t"], e["o"]]:
                    return self.fail("C06", "network.structure", "end nodes / orientation of edge %s (session %d)"
                                     % (e["id"], s), [e["s"], e["t"], e["o"]], got)
                if m.get("broken") is not None and m["edges"][m["broken"]]["id"] == e["id"]:
                    pass
                elif not self._deq(m, ed.weight, e["w"]):
                    return self.fail("C06", "network.structure", "weight of edge %s (session %d)" % (e["id"], s),
                                     e["w"], ed.weight)
                pts = [[o.position.getX(), o.position.getY()] for o in ed.geom]
                if pts != e["pts"]:
                    return self.fail("C07", "network.geometry_changed", "the stored geometry of edge %s (session %d) "
                                     "changed although no step edited the network" % (e["id"], s), e["pts"], pts)
            # per-node adjacency, in insertion order (anchored state of C06)
            nxt = {v: [] for v in m["nodes"]}
            prv = {v: [] for v in m["nodes"]}
            for e in m["edges"]:
                if e["o"] >= 0:
                    nxt[e["s"]].append(e["id"])
                    prv[e["t"]].append(e["id"])
                if e["o"] <= 0:
                    nxt[e["t"]].append(e["id"])
                    prv[e["s"]].append(e["id"])
            for v in m["nodes"]:
                gn, gp = list(net.getNextEdges(v)), list(net.getPrevEdges(v))
                if gn != nxt[v] or gp != prv[v]:
                    return self.fail("C06", "network.structure", "edges leaving / entering node %s (session %d)"
                                     % (v, s), [nxt[v], prv[v]], [gn, gp])
                if not net.hasNode(v):
                    return self.fail("C06", "network.structure", "hasNode(%r) is false for a node of the network" % (v,),
                                     True, False)
            if net.getNumberOfNodes() != len(m["nodes"]) or net.getNumberOfEdges() != len(m["edges"]):
                return self.fail("C06", "network.structure", "number of nodes / edges of session %d" % s,
                                 [len(m["nodes"]), len(m["edges"])], [net.getNumberOfNodes(), net.getNumberOfEdges()])
            for v, p in m["nodes"].items():
                c = net.getNode(v).coord
                if [c.getX(), c.getY()] != list(p):
                    return self.fail("C07", "network.geometry_changed", "the position of node %s (session %d) changed "
                                     "although no step edited the network" % (v, s), list(p), [c.getX(), c.getY()])

    # ----------------------------------------------------------------- model
    def _fw(self, m):
        if m["fw"] is not None:
            return m["fw"]
        ids = list(m["nodes"])
        d = {(a, b): (0 if a == b else INF) for a in ids for b in ids}
        for e in m["edges"]:
            if e["o"] >= 0:
                d[(e["s"], e["t"])] = min(d[(e["s"], e["t"])], e["w"])
            if e["o"] <= 0:
                d[(e["t"], e["s"])] = min(d[(e["t"], e["s"])], e["w"])
        for k in ids:
            for a in ids:
                dak = d[(a, k)]
                if dak == INF:
                    continue
                for b in ids:
                    v = dak + d[(k, b)]
                    if v < d[(a, b)]:
                        d[(a, b)] = v
        m["fw"] = d
        return d

    def _deq(self, m, a, b):
        if m["exact"]:
            return a == b
        return abs(a - b) <= 1e-9 * max(1.0, abs(a), abs(b))

    def _node(self, m, i):
        ids = list(m["nodes"])
        if not ids:
            raise Skip()
        return ids[i % len(ids)]

    # --------------------------------------------------------------- generator
    def gen(self, rngs):
        r = rngs("gen")
        s = r.randrange(self.cfg["sessions"])
        m = self.model.get(s)
        if m is None:
            return {"op": "new_net", "s": s}
        q = getattr(self, "pendq", {}).get(s)
        if q:
            return q.pop(0)
        if not m["edges"]:
            return self._g_add_edge(r, s, m)
        fam = _wchoice(r, [(k, w) for k, w in self.cfg["fam"].items() if w])
        if fam == "grow":
            if not self.cfg["road"] and r.random() < self.cfg.get("lone", 0):
                # a junction declared on its own (no road yet, perhaps never)
                k = r.randrange(self.cfg["max_nodes"])
                ints = self.cfg.get("int_ids")
                return {"op": "add_node", "s": s, "id": (k - 2) if ints else "n%d" % k,
                        "p": [float(r.randint(0, 9)), float(r.randint(0, 9))]}
            if r.random() < 0.04:
                return {"op": "simplify", "s": s, "tol": r.choice([0.5, 2.0, 5.0])}
            if self.cfg["road"] and not m["all_abs"] and r.random() < 0.5:
                return {"op": "abs_again", "s": s, "twice": False}
            if r.random() < self.cfg.get("routing", 0):
                k = r.choice(["astar", "astar", "dijkstra", "dijkstra", "unknown"])
                return {"op": "set_routing", "s": s, "mode": k, "wgt": r.choice([0, 0.5, 1, 2]),
                        "value": r.choice(["ROUTING_ALGO_ASTAR", "astar", 7, None])}
            if m.get("broken") is not None and r.random() < 0.5:
                return {"op": "set_weight", "s": s, "e": m["broken"], "w": r.choice([0.5, 1, 2, 3]) * self._ws()}
            if r.random() < self.cfg.get("reweigh", 0) * 0.3 and not self.cfg["road"] and m.get("broken") is None:
                return {"op": "break_weight", "s": s, "e": r.randrange(64)}
            if r.random() < 0.05:
                if r.random() < 0.08:
                    return {"op": "inspect_edge", "s": s, "e": r.randrange(64), "how": "net_deepcopy",
                            "fault": {"kind": "interrupt", "at": int(round(10 ** r.uniform(0, 3.0)))}}
                return {"op": "inspect_edge", "s": s, "e": r.randrange(64),
                        "how": r.choice(["constraint", "wkt", "length", "bbox", "bbox", "net_bbox", "copy", "noise",
                                         "simplify", "tail", "all_copy", "all_copy", "net_deepcopy",
                                         "net_deepcopy", "reverse_abs", "reverse_abs", "net_plot", "net_stats"])}
            u = r.random()
            if u < self.cfg.get("reweigh", 0) and not self.cfg["road"]:
                return {"op": "set_weight", "s": s, "e": r.randrange(64),
                        "w": r.choice([0, 0.25, 0.5, 1, 2, 3, 4, 6, 10]) * self._ws()}
            if u < self.cfg.get("reweigh", 0) + self.cfg.get("persist", 0):
                k = r.random()
                st = {"op": "save_prep" if k < 0.45 else "load_prep", "s": s, "slot": r.randrange(2)}
                if k >= 0.45 and r.random() < max(self.cfg["fault_rate"], 0.15):
                    st["fault"] = {"kind": r.choice(["open_error", "read_error"]), "at": 1,
                                   "errno": r.choice([2, 13, 5])}
                elif k < 0.45 and r.random() < self.cfg["fault_rate"]:
                    st["fault"] = {"kind": r.choice(["open_error", "write_error"]), "at": 1, "errno": 28}
                return st
            if self.cfg["road"] and r.random() < self.cfg.get("rescale", 0):
                return {"op": r.choice(["rescale", "abs_again", "abs_again", "annotate_edges", "annotate_edges"]), "s": s,
                        "h": r.choice([2.0, 0.5, 4.0]), "twice": r.random() < 0.5, "e": r.randrange(64),
                        "resurvey": r.random() < 0.7}
            if r.random() < self.cfg.get("subnet", 0):
                st = {"op": "sub_network", "s": s, "a": r.randrange(64), "cut": self._gen_cut(r, m),
                      "mode": r.choice(["TOPOLOGIC", "TOPOLOGIC", "GEOMETRIC"]),
                      "to": (s + 1) % self.cfg["sessions"] if (self.cfg["sessions"] > 1 and r.random() < 0.5) else None}
                if r.random() < 0.15:
                    # a request the network refuses (a junction it does not hold, or a coordinate where the
                    # mode wants a junction): whatever it answers, the network goes on serving
                    st.update({"refused": r.choice(["unknown", "coordinate"]), "to": None, "mode": "TOPOLOGIC"})
                    return st
                if st["to"] is not None and self.cfg["road"] and r.random() < 0.6:
                    # the owner of the extract generalises it and recomputes the abscissas; the owner of
                    # the full network (whose common edges changed with it) recomputes his
                    if not hasattr(self, "pendq"):
                        self.pendq = {}
                    st["cut"] = 1e300
                    self.pendq.setdefault(st["to"], []).extend([
                        {"op": "simplify", "s": st["to"], "tol": r.choice([0.5, 2.0])},
                        {"op": "abs_again", "s": st["to"], "twice": False}])
                    self.pendq.setdefault(s, []).append({"op": "abs_again", "s": s, "twice": False})
                return st
            if r.random() < self.cfg["reload"] and self.cfg["sessions"] > 1 and r.random() < 0.4:
                return {"op": "load_copy", "s": s, "from": (s + 1) % self.cfg["sessions"]}
            if self.cfg["road"] and r.random() < self.cfg["reload"] * 0.5:
                return {"op": "geo_roundtrip", "s": s, "sep": r.choice([",", ";"])}
            if r.random() < self.cfg["reload"]:
                perm = list(range(6))
                if r.random() < 0.5:
                    r.shuffle(perm)
                st = {"op": "reload", "s": s, "sep": r.choice([",", ";"]), "weights": r.random() < 0.5, "perm": perm}
                if r.random() < self.cfg["fault_rate"]:
                    k = r.choice(["open_error", "write_error", "close_error", "read_error", "interrupt"])
                    st["fault"] = {"kind": k, "at": r.choice([1, 1, 2, 3]), "errno": 5}
                    if k == "interrupt":
                        st["fault"]["at"] = int(round(10 ** r.uniform(0, 3.5)))
                return st
            return self._g_add_edge(r, s, m)
        if fam == "C06":
            op = r.choice(C06_OPS)
            if op == "dist":
                return {"op": "dist", "s": s, "a": r.randrange(64), "b": r.randrange(64),
                        "as_node": r.choice([False, False, False, True, "foreign"])}
            if op == "dist_all":
                return {"op": "dist_all", "s": s, "a": r.randrange(64)}
            if op == "all_pairs":
                return {"op": "all_pairs", "s": s, "cut": self._gen_cut(r, m), "own": r.random() < 0.4,
                        "cut2": self._gen_cut(r, m) if r.random() < 0.3 else None}
            if op == "prepare":
                st = {"op": "prepare", "s": s, "cut": self._gen_cut(r, m)}
                if r.random() < max(self.cfg["fault_rate"], 0.05) * 0.5:
                    # the user interrupts a long preparation (Ctrl-C) and goes on working with the network
                    st["fault"] = {"kind": "interrupt", "at": int(round(10 ** r.uniform(0, 3.0)))}
                return st
            return {"op": "prepared", "s": s, "a": r.randrange(64), "b": r.randrange(64)}
        if fam == "C07":
            if r.random() < (0.6 if self.cfg.get("hub") else 0.3):
                k = len(m["nodes"]) if r.random() < 0.5 else r.randint(1, 4)
                t0 = r.randrange(64)
                return {"op": "path_multi", "s": s, "a": r.randrange(64),
                        "targets": [t0 + i for i in range(k)] if k > 4 else [r.randrange(64) for _ in range(k)]}
            u = r.random()
            if u < 0.12:
                return {"op": "forward", "s": s, "a": r.randrange(64)}
            if u < 0.3 and m.get("fwd"):
                return {"op": "backward", "s": s, "b": r.randrange(64)}
            if u < 0.36 and m.get("fwd") and m["index"] is None:
                # between the two phases another user takes a geometric extract of the same network
                return {"op": "sub_network", "s": s, "a": r.randrange(64), "cut": self._gen_cut(r, m),
                        "mode": "GEOMETRIC", "to": None}
            if u < 0.40 and m.get("fwd"):
                # between the two phases another user deep-copies the network (and may give up half-way)
                st = {"op": "inspect_edge", "s": s, "e": r.randrange(64), "how": "net_deepcopy"}
                if r.random() < 0.5:
                    st["fault"] = {"kind": "interrupt", "at": int(round(10 ** r.uniform(0, 3.0)))}
                return st
            return {"op": "path", "s": s, "a": r.randrange(64), "b": r.randrange(64),
                    "as_node": r.choice([False, False, False, False, True, "foreign"]), "rec": r.random() < 0.2,
                    "scribble": r.random() < 0.25,
                    # search bounded by the known distance of the target, or by a little more
                    "bound": r.choice([None, None, None, 0, 0, 0.25, 2.0])}
        # C10: needs abs_curv on every edge, an index and prepared distances
        if self.cfg["sessions"] > 1 and self.cfg["road"] and r.random() < 0.03:
            return {"op": "noise_net", "s": s, "from": (s + 1) % self.cfg["sessions"], "seed": r.randrange(10 ** 6), "ortho": r.random() < 0.5}
        if (m["index"] is None or m["prepared"] is None) and m["edges"] and r.random() < 0.15:
            # ... which the user sometimes forgets: the matching is requested on a network that is not ready
            ob = self._gen_track(r, m)
            ob = (ob + ob + ob)[: 3 * max(1, len(ob) // 3)] if len(ob) % 3 else ob
            return {"op": "map", "s": s, "slot": r.randrange(2), "obs": ob, "noise": r.choice([1, 10, 50]),
                    "z": 0.0, "tmode": "inc", "radius": self._gen_radius(r), "tcost": r.choice([1, 10]), "coll": False}
        if m["index"] is None or (r.random() < 0.05):
            return {"op": "index", "s": s, "frac": None if r.random() < 0.3 else
                    [round(r.uniform(0.05, 0.9), 3), round(r.uniform(0.05, 0.9), 3)],
                    "margin": r.choice([0.05, 0.2, 0.5])}
        if m["prepared"] is None:
            pc = self.cfg.get("prep_cut")
            return {"op": "prepare", "s": s, "cut": 1e300 if pc is None else pc * self.cfg["step"]}
        if r.random() < self.cfg.get("persist", 0):
            st = {"op": r.choice(["save_index", "load_index"]), "s": s}
            if r.random() < max(self.cfg["fault_rate"], 0.1):
                k = r.choice(["open_error", "write_error", "close_error"] if st["op"] == "save_index"
                             else ["open_error", "read_error"])
                st["fault"] = {"kind": k, "at": r.choice([1, 1, 2, 3]), "errno": r.choice([28, 5, 13])}
            return st
        slot = r.randrange(2)
        if (s, 1 - slot) in self.tracks and r.random() < 0.12:
            return {"op": "map_span", "s": s, "slot": slot, "noise": r.choice([1, 10, 50]),
                    "radius": self._gen_radius(r), "tcost": r.choice([1, 10])}
        if (s, slot) in self.tracks and r.random() < 0.35:
            return {"op": "remap", "s": s, "slot": slot, "noise": r.choice([1, 10, 50]),
                    "radius": self._gen_radius(r), "tcost": r.choice([1, 10]), "note": r.random() < 0.4}
        st = {"op": "map", "s": s, "slot": slot, "obs": self._gen_track(r, m), "noise": r.choice([1, 10, 50]),
              "z": self.cfg.get("alt", 0.0) if r.random() < 0.7 else 0.0, "tmode": self.cfg.get("tmode", "inc"),
              "radius": self._gen_radius(r), "tcost": r.choice([1, 10]), "coll": r.random() < 0.3,
              "scribble": r.random() < 0.15}
        if r.random() < 0.1:
            st.update({"defaults": True, "noise": 50, "tcost": 10, "radius": 50})      # mapOnNetwork(tracks, network)
        elif r.random() < 0.15:
            st["debug"] = True            # appends every candidate to observation.dat (simulated disk)
        if r.random() < self.cfg["fault_rate"] * 0.5:
            st["fault"] = {"kind": "interrupt", "at": int(round(10 ** r.uniform(0, 3.3)))}
            if st.get("debug") and r.random() < 0.6:
                k = r.choice(["open_error", "write_error", "write_error"])
                st["fault"] = {"kind": k, "at": 1 if k == "open_error" else r.choice([1, 2, 3, 5, 9]),
                               "errno": r.choice([28, 5, 13])}
        return st

    def _gen_cut(self, r, m):
        d = [v for v in self._fw(m).values() if v not in (0, INF)]
        if d and r.random() < 0.6:
            v = r.choice(sorted(d))
            if m["exact"]:
                return r.choice([v, v, v - 0.25 * self._ws(), v + 0.25 * self._ws()])
            return r.choice([v * 0.999, v * 1.001])
        return r.choice([0, 0.5 * self._ws(), 1 * self._ws(), 2 * self._ws(), 3 * self._ws(), 5 * self._ws(), 1e300])

    def _ws(self):
        """Weight unit of the run: 1, or 2**-34 (travel times in tiny units: sums stay exact)."""
        return 2.0 ** -34 if self.cfg.get("tiny_w") else 1.0

    def _gen_radius(self, r):
        st = self.cfg["step"]
        return r.choice([1.0, 5.0, st / 2, st, 3 * st, 5e-4, 1.0, 5.0, st / 2, st, 3 * st, 0])

    def _g_add_edge(self, r, s, m):
        cfg = self.cfg
        self.ecount += 1
        ints = cfg.get("int_ids") and not cfg["road"]      # integer identifiers, 0 included
        eid = (self.ecount - 1) if ints else "e%d" % self.ecount
        if not ints and cfg.get("empty_eid") and not any(e["id"] == "" for e in m["edges"]) and r.random() < 0.3:
            eid = ""                   # a blank identifier column: legal, and falsy
        st = {"op": "add_edge", "s": s, "id": eid}
        if cfg["road"]:
            g, step = cfg["grid"], cfg["step"]
            i, j = r.randrange(g), r.randrange(g)
            if r.random() < 0.5:
                i2, j2 = (i + 1, j) if i + 1 < g else (i - 1, j)
            else:
                i2, j2 = (i, j + 1) if j + 1 < g else (i, j - 1)

            def npos(a, b):
                rr = simfs_random(a, b, cfg["step"])
                return [a * step + rr[0], b * step + rr[1]]
            a, b = "n%d_%d" % (i, j), "n%d_%d" % (i2, j2)
            pa, pb = npos(i, j), npos(i2, j2)
            if r.random() < 0.04:
                # a ring road: leaves the junction and comes back to it (closed with Track.loop(add=True))
                w_ = step / 5
                st.update({"src": a, "tgt": a, "psrc": pa, "ptgt": list(pa), "ring": True, "w": None, "o": 0, "abs": True,
                           "mids": [[pa[0] + w_ + r.uniform(-0.5, 0.5), pa[1] + r.uniform(-0.5, 0.5)],
                                    [pa[0] + w_ + r.uniform(-0.5, 0.5), pa[1] + w_],
                                    [pa[0] + r.uniform(-0.5, 0.5), pa[1] + w_ + r.uniform(-0.5, 0.5)]]})
                return st
            mids = []
            nm = r.choice([0, 0, 1, 2])
            if cfg.get("dense") and r.random() < 0.4:
                nm = r.choice([40, 70, 120])        # a road digitised densely (a GPS trace turned into an edge)
            for k in range(nm):
                f = (k + 1) / (max(nm, 2) + 1)
                w_ = 2 if nm <= 2 else 0.2
                mids.append([pa[0] + (pb[0] - pa[0]) * f + r.uniform(-w_, w_),
                             pa[1] + (pb[1] - pa[1]) * f + r.uniform(-w_, w_)])
            if mids and r.random() < 0.2:
                k = r.randrange(len(mids))
                mids.insert(k, list(mids[k]))          # repeated vertex: a legal zero-length segment
            st.update({"src": a, "tgt": b, "psrc": pa, "ptgt": pb, "mids": mids, "w": None,
                       "o": r.choice([0, 0, 0, 1, -1]), "abs": True})
            if cfg.get("travel_time"):
                st["wf"] = r.choice([0.1, 0.5, 3.0])       # weight = travel time, not length
            return st
        nn = cfg["max_nodes"]
        nid = (lambda k: k - 2) if ints else (lambda k: "" if (k == 1 and cfg.get("empty_id")) else "n%d" % k)
        a = nid(r.randrange(nn))
        b = a if r.random() < cfg["loops"] else nid(r.randrange(nn))
        w = 0 if r.random() < cfg["zero_w"] else r.choice([0.5, 1, 1, 2, 3, 4, 0.25])
        if cfg.get("hub"):
            if r.random() < 0.6 and m["edges"]:
                e0 = r.choice(m["edges"])            # one more road between an already linked pair
                a, b = (e0["s"], e0["t"]) if r.random() < 0.7 else (e0["t"], e0["s"])
            between = [e["w"] for e in m["edges"] if {e["s"], e["t"]} == {a, b}]
            w = max(0.25, min(between) - r.choice([0.25, 0.5, 1])) if between else r.choice([6, 8, 10, 12, 16])
        w = w * self._ws()
        o = r.choice([1, -1]) if r.random() < cfg["oneway"] else 0
        mids = [[r.randint(0, 9) + 0.25, r.randint(0, 9) + 0.75] for _ in range(r.choice([0, 0, 1, 2]))]
        st.update({"src": a, "tgt": b, "psrc": [float(r.randint(0, 9)), float(r.randint(0, 9))],
                   "ptgt": [float(r.randint(0, 9)), float(r.randint(0, 9))], "mids": mids, "w": w, "o": o,
                   "abs": r.random() < 0.5})
        return st

    def _gen_track(self, r, m):
        st = self.cfg["step"]
        g = self.cfg["grid"]
        if m["edges"] and r.random() < 0.06:
            # a receiver creeping away from the road in steps below a tenth of a millimetre
            pts = r.choice(m["edges"])["pts"]
            a, b = pts[0], pts[1]
            L = math.dist(a, b) or 1.0
            nx, ny = -(b[1] - a[1]) / L, (b[0] - a[0]) / L
            u = r.uniform(0.2, 0.8)
            x0, y0 = a[0] + u * (b[0] - a[0]), a[1] + u * (b[1] - a[1])
            return [[x0 + nx * k * 9e-5, y0 + ny * k * 9e-5] for k in range(r.choice([12, 20, 30]))]
        n = r.choice([1, 2, 3, 5, 9])
        x, y = r.uniform(0, (g - 1) * st), r.uniform(0, (g - 1) * st)
        obs = []
        for k in range(n):
            mode = r.random()
            if mode < 0.45 and m["edges"]:
                pts = r.choice(m["edges"])["pts"]
                i = r.randrange(len(pts) - 1)
                a, b = pts[i], pts[i + 1]
                u = r.random()
                x, y = a[0] + u * (b[0] - a[0]), a[1] + u * (b[1] - a[1])
                if r.random() < 0.6:                                 # GPS noise around the road
                    x += r.uniform(-3, 3)
                    y += r.uniform(-3, 3)
                if a[0] == b[0] == x and r.random() >= self.cfg["vertical_exact"]:
                    x += r.choice([-1, 1]) * r.uniform(1e-6, 0.5)    # keep exactly-on-a-vertical-segment fixes rare
            elif mode < 0.85:
                x += r.uniform(-st / 2, st / 2)
                y += r.uniform(-st / 2, st / 2)
            elif mode < 0.97:
                x += r.uniform(-3 * st, 3 * st)
                y += r.uniform(-3 * st, 3 * st)
            else:
                x += r.choice([-1, 1]) * r.uniform(8000, 20000)      # a gap in the recording: the next fix is km away
                y += r.uniform(-3 * st, 3 * st)
            obs.append([x, y])
        return obs

    # ------------------------------------------------------------ session steps
    def _sess(self, st):
        s = st.get("s", 0)
        if s not in self.model:
            raise Skip()
        return self.real[s], self.model[s]

    def _sess_exact(self, st):
        """Session whose answers are judged: its network routes with Dijkstra.  In A* mode
        (documented as approximate) the same call is made and recorded, nothing is judged."""
        net, m = self._sess(st)
        if m.get("astar") or m.get("broken") is not None:
            self._unjudged(st, net, m)
            raise Skip()
        return net, m

    def _unjudged(self, st, net, m):
        op = st["op"]
        if op == "dist":
            self.call(net.shortest_distance, self._node(m, st["a"]), self._node(m, st["b"]))
        elif op == "path":
            a, b = self._node(m, st["a"]), self._node(m, st["b"])
            if a != b:
                self.call(net.shortest_path, a, b)
        elif op == "dist_all":
            self.call(net.shortest_distance, self._node(m, st["a"]), None)
        self.probe("answer_in_a_star_mode_not_judged")

    def op_new_net(self, st):
        from tracklib.core import Network
        s = st.get("s", 0)
        self.real[s] = Network()
        self.model[s] = {"nodes": {}, "edges": [], "fw": None, "index": None, "prepared": None, "ptable": None,
                         "grown_since_prepare": False, "exact": True, "all_abs": True}

    @staticmethod
    def _drop_lone(m):
        """A network file lists roads: a junction no road ends at is not in the network read back."""
        order = []
        for e in m["edges"]:
            for v in (e["s"], e["t"]):
                if v not in order:
                    order.append(v)
        old = dict(m["nodes"])
        m["nodes"].clear()
        for v in order:                 # ... and the junctions come in the order the roads mention them
            m["nodes"][v] = old[v]

    def op_add_node(self, st):
        from tracklib.core import ENUCoords, Node
        net, m = self._sess(st)
        if st["id"] in m["nodes"] or m.get("broken") is not None:
            raise Skip()
        _, exc = self.call(net.addNode, Node(st["id"], ENUCoords(st["p"][0], st["p"][1], 0)))
        if exc is not None:
            return self._unexpected("C06", exc, "addNode(%r)" % (st["id"],))
        m["nodes"][st["id"]] = list(st["p"])
        m["fw"] = None
        m["version"] = m.get("version", 0) + 1
        m["grown_since_prepare"] = True
        self.probe("junction_declared_without_a_road")

    def op_add_edge(self, st):
        from tracklib.core import Track, Obs, ENUCoords, Node, Edge
        from tracklib.algo.cinematics import computeAbsCurv
        net, m = self._sess(st)
        if any(e["id"] == st["id"] for e in m["edges"]):
            raise Skip()
        a, b = st["src"], st["tgt"]
        pa = m["nodes"].get(a, st["psrc"])
        pb = m["nodes"].get(b, st["ptgt"] if b != a else pa)
        pts = [list(pa)] + [list(p) for p in st["mids"]] + [list(pb)]
        if len(pts) == 2 and pts[0] == pts[1] and st.get("abs"):
            raise Skip()            # zero-length road segment: not a road
        if m["index"] is not None:
            x0, x1, y0, y1 = m["index"]["extent"]
            if not all(x0 < p[0] < x1 and y0 < p[1] < y1 for p in pts):
                raise Skip()        # growth outside / on the border of an existing index: outside C06/C07/C10
        if st.get("ring") and len(pts) > 2 and pts[0] == pts[-1]:
            geom = Track([Obs(ENUCoords(x, y, 0)) for x, y in pts[:-1]])
            geom.loop(True)                 # the library's way of closing a line
            self.probe("ring_road_closed_with_loop")
        else:
            geom = Track([Obs(ENUCoords(x, y, 0)) for x, y in pts])
        if st.get("abs"):
            computeAbsCurv(geom)
        e = Edge(st["id"], geom)
        e.orientation = self._np(st["o"])
        w = st["w"] if st["w"] is not None else geom.length() * st.get("wf", 1.0)
        e.weight = self._np(w)
        na, nb = Node(a, ENUCoords(pa[0], pa[1], 0)), Node(b, ENUCoords(pb[0], pb[1], 0))
        if a == b and len(pts) % 2 == 0:
            nb = na                    # a loop declared with one and the same Node object for both ends
            self.probe("loop_edge_with_one_node_object")
        if (len(pts) + len(m["edges"])) % 4 == 0:      # a function of the step and the model only
            # junctions declared first, roads afterwards (the other documented way of building a network)
            for nd in (na, nb):
                _, exc = self.call(net.addNode, nd)
                if exc is not None:
                    self.fail("C06", "addEdge.raised", "addNode raised %r" % (exc,))
                    return "raised"
            self.probe("junctions_declared_before_the_road")
        _, exc = self.call(net.addEdge, e, na, nb)
        if exc is not None:
            self.fail("C06", "addEdge.raised", "addEdge raised %r" % (exc,))
            return "raised"
        m["nodes"].setdefault(a, list(pa))
        m["nodes"].setdefault(b, list(pb))
        m["edges"].append({"id": st["id"], "s": a, "t": b, "o": st["o"], "w": w, "pts": pts})
        m["fw"] = None
        m["version"] = m.get("version", 0) + 1
        if st["w"] is None:
            m["exact"] = False
        if not st.get("abs"):
            m["all_abs"] = False
        if m["prepared"] is not None:
            m["grown_since_prepare"] = True
        if m["index"] is not None:
            self.probe("addEdge_after_index")
        if any(p == q for p, q in zip(pts, pts[1:])):
            self.probe("edge_with_repeated_vertex")
        if w == 0:
            self.probe("zero_weight_edge")
        if a == b:
            self.probe("self_loop")
        if sum(1 for x in m["edges"] if {x["s"], x["t"]} == {a, b}) > 1:
            self.probe("parallel_edges")

    # ------------------------------------------------------------------ C06 ops
    def _unexpected(self, prop, exc, where, **detail):
        kind = "exit" if isinstance(exc, SystemExit) else "raised"
        self.fail(prop, "call." + kind, "%s: valid request ended in %s: %s" % (where, type(exc).__name__, exc),
                  "normal return", repr(exc), exception=type(exc).__name__, **detail)
        return kind

    def op_dist(self, st):
        net, m = self._sess_exact(st)
        a, b = self._node(m, st["a"]), self._node(m, st["b"])
        exp = self._fw(m)[(a, b)]
        if m.get("last_source") not in (None, a):
            self.probe("search_from_other_source_back_to_back")
        m["last_source"] = a
        if st.get("as_node") == "foreign":
            # Node objects that are not the network's own (same identifiers, e.g. taken from another
            # network over the same junctions): a node designates a junction by its identifier
            from tracklib.core import Node, ENUCoords
            self.probe("query_with_node_objects_of_another_network")
            rv, exc = self.call(net.shortest_distance, Node(a, ENUCoords(0, 0, 0)), Node(b, ENUCoords(1, 1, 0)))
        elif st.get("as_node"):
            rv, exc = self.call(net.shortest_distance, net.getNode(a), net.getNode(b))
        else:
            rv, exc = self.call(net.shortest_distance, self._np(a), self._np(b))
        if exc is not None:
            return self._unexpected("C06", exc, "shortest_distance(%s, %s)" % (a, b))
        if hasattr(rv, "item"):
            rv = rv.item()          # a numpy scalar is a number like any other
        self.observed(rv)
        if exp == INF:
            self.probe("target_unreachable")
            if not (isinstance(rv, (int, float)) and rv < 0):
                self.fail("C06", "distance.unreachable", "no permitted walk %s -> %s: a negative sentinel is expected"
                          % (a, b), -1, rv)
        elif not self._deq(m, rv, exp):
            self.fail("C06", "distance.value", "shortest_distance(%s, %s)" % (a, b), exp, rv, exact=m["exact"])
        else:
            self._probe_route(m, a, b)

    def _np(self, v):
        """In some runs integer identifiers are handed over as numpy integers (what an index read
        from an array is) and weights are numpy floats."""
        if self.cfg.get("np_types"):
            import numpy
            if isinstance(v, bool):
                return v
            if isinstance(v, int):
                return numpy.int64(v)
            if isinstance(v, float):
                return numpy.float64(v)
        return v

    def _probe_route(self, m, a, b):
        d = self._fw(m)
        for e in m["edges"]:
            for (u, v, ok) in ((e["s"], e["t"], e["o"] >= 0), (e["t"], e["s"], e["o"] <= 0)):
                if ok and d[(a, u)] + e["w"] + d[(v, b)] == d[(a, b)] and d[(a, b)] != INF:
                    if e["w"] == 0 and u != v:
                        self.probe("zero_weight_edge_on_an_optimal_path")
                    if e["o"] == -1:
                        self.probe("reverse_only_edge_on_an_optimal_path")

    def op_dist_all(self, st):
        net, m = self._sess_exact(st)
        a = self._node(m, st["a"])
        d = self._fw(m)
        m["last_source"] = a
        rv, exc = self.call(net.shortest_distance, a, None)
        if exc is not None:
            return self._unexpected("C06", exc, "shortest_distance(%s, None)" % a)
        ids = list(m["nodes"])
        real_ids = list(net.getNodesId())
        if real_ids != ids:
            self.fail("C06", "nodes.order", "node identifiers of the network", ids, real_ids)
            return
        self.observed(list(rv))
        if len(rv) != len(ids):
            self.fail("C06", "distance.one_to_all", "length of the one-to-all answer", len(ids), len(rv))
            return
        for b, g in zip(ids, rv):
            e = d[(a, b)]
            if e == INF:
                if not g >= 1e299:
                    self.fail("C06", "distance.one_to_all", "%s -> %s is unreachable: 1e300 is documented" % (a, b),
                              1e300, g)
                    return
            elif not self._deq(m, g, e):
                self.fail("C06", "distance.one_to_all", "one-to-all distance %s -> %s" % (a, b), e, g)
                return

    def _pairs(self, m, cut):
        return {k: v for k, v in self._fw(m).items() if v <= cut}

    def _cmp_table(self, m, got, exp, where):
        if set(got) != set(exp):
            extra = sorted(set(got) - set(exp), key=repr)[:4]
            missing = sorted(set(exp) - set(got), key=repr)[:4]
            self.fail("C06", "table.pairs", where + ": set of ordered pairs in the table",
                      {"missing": [list(k) + [exp[k]] for k in missing]},
                      {"extra": [list(k) + [got[k]] for k in extra]})
            return False
        for k in exp:
            if not self._deq(m, got[k], exp[k]):
                self.fail("C06", "table.value", where + ": distance of pair %s" % (list(k),), exp[k], got[k])
                return False
        return True

    def op_all_pairs(self, st):
        net, m = self._sess_exact(st)
        cut = st["cut"]
        exp = self._pairs(m, cut)
        if any(v == cut for v in exp.values() if v):
            self.probe("cut_equal_to_an_exact_distance")
        if st.get("own"):
            mine = {}
            rv, exc = self.call(net.all_shortest_distances, cut, mine)
            if exc is None and rv is not mine and rv != mine:
                self.fail("C06", "table.own_dict", "the table passed by the caller must be the one filled",
                          "same table", "another table")
                return
            if exc is None and st.get("cut2") is not None:
                # documented: successive calls with the same dictionary accumulate
                rv, exc = self.call(net.all_shortest_distances, st["cut2"], mine)
                exp = self._pairs(m, max(cut, st["cut2"]))
                self.probe("caller_table_filled_twice")
        else:
            rv, exc = self.call(net.all_shortest_distances, cut)
        if exc is not None:
            return self._unexpected("C06", exc, "all_shortest_distances(cut=%s)" % cut)
        self.observed(len(rv))
        self._cmp_table(m, rv, exp, "all_shortest_distances(cut=%s)" % cut)

    def op_prepare(self, st):
        """prepare(cut) accumulates into the network's table (documented): every pair whose
        current distance is within the cut-off is (re)written with its current distance, every
        other entry stays what it was -- the model keeps the very same table."""
        net, m = self._sess_exact(st)
        cut = st["cut"]
        fault = st.get("fault")
        if fault:
            self.fs.plan.arm(fault)
            self.stats["fault_armed:interrupt"] += 1
            with simfs.Interrupter(self.fs.plan, traced=("/tracklib/core/network.py",)):
                _, exc = self.call(net.prepare, cut, False)
            fired = self.fs.plan.fired
            self.fs.plan.clear()
            if fired:
                # whatever the table holds now is an entry it held before or the true distance of a pair
                # within the cut-off (entries are final when they are written); the model takes it over
                self.stats["fault_fired:interrupt"] += 1
                self.probe("interrupted_preparation")
                if exc is None:
                    self.probe("fault_swallowed_by_call")
                old = dict(m["ptable"] or {})
                got = dict(net.DISTANCES) if net.DISTANCES is not None else None
                if got is not None:
                    true = self._pairs(m, cut)
                    for k, v in sorted(got.items(), key=repr):
                        if (k in old and self._deq(m, v, old[k])) or (k in true and self._deq(m, v, true[k])):
                            continue
                        self.fail("C06", "table.value", "prepared table after an interrupted prepare(cut=%s): entry "
                                  "of pair %s is neither the one it held nor a true distance within the cut-off"
                                  % (cut, list(k)), true.get(k, old.get(k)), v)
                        return "fault"
                    if any(k not in got for k in old):
                        self.fail("C06", "table.pairs", "prepared table after an interrupted prepare(cut=%s): entries "
                                  "it held are gone" % cut, len(old), len(got))
                        return "fault"
                    m["ptable"] = got
                    m["prepared"] = cut if m["prepared"] is None else max(m["prepared"], cut)
                return "fault"
        else:
            _, exc = self.call(net.prepare, cut, False)
        if exc is not None:
            return self._unexpected("C06", exc, "prepare(cut=%s)" % cut)
        if m["prepared"] is None:
            m["prepared"] = cut
            m["ptable"] = {}
        else:
            self.probe("prepare_again_after_change" if m["grown_since_prepare"] else "prepare_accumulates")
            m["prepared"] = max(m["prepared"], cut)
        m["ptable"].update(self._pairs(m, cut))
        m["grown_since_prepare"] = False
        self._cmp_table(m, dict(net.DISTANCES), m["ptable"], "prepared table after prepare(cut=%s)" % cut)

    def op_prepared(self, st):
        net, m = self._sess(st)
        if m["prepared"] is None:
            raise Skip()
        a, b = self._node(m, st["a"]), self._node(m, st["b"])
        if (st["a"] + st["b"]) % 3 == 0:
            rv, exc = self.call(net.prepared_shortest_distance, net.getNode(a), net.getNode(b))
        else:
            rv, exc = self.call(net.prepared_shortest_distance, a, b)
        if exc is not None:
            return self._unexpected("C06", exc, "prepared_shortest_distance")
        has, exc = self.call(net.has_prepared_shortest_distance, a, b)
        if exc is not None or bool(has) != ((a, b) in m["ptable"]):
            self.fail("C06", "prepared.has", "has_prepared_shortest_distance(%s, %s)" % (a, b),
                      (a, b) in m["ptable"], repr(exc) if exc is not None else has)
            return
        self.observed(rv)
        if m["grown_since_prepare"]:
            self.probe("stale_prepared")          # stale by design: the answer is what the table holds
        exp = m["ptable"].get((a, b), 1e300)
        if not self._deq(m, rv, exp):
            self.fail("C06", "prepared.value", "prepared_shortest_distance(%s, %s): not the entry of the prepared "
                      "table" % (a, b), exp, rv)

    # ------------------------------------------------------------------ C07 op
    def op_path(self, st):
        net, m = self._sess_exact(st)
        a, b = self._node(m, st["a"]), self._node(m, st["b"])
        if a == b:
            raise Skip()
        m["last_source"] = a
        rec = {} if st.get("rec") else None
        if st.get("as_node") == "foreign":
            from tracklib.core import Node, ENUCoords
            self.probe("query_with_node_objects_of_another_network")
            rv, exc = self.call(net.shortest_path, Node(a, ENUCoords(0, 0, 0)), Node(b, ENUCoords(1, 1, 0)))
        elif st.get("as_node"):
            rv, exc = self.call(net.shortest_path, net.getNode(a), net.getNode(b))
        elif st.get("bound") is not None and m["exact"] and not m.get("astar") and self._fw(m)[(a, b)] != INF:
            # "cut: a maximal distance for search": a target lying within the bound is within reach
            cut = self._fw(m)[(a, b)] + st["bound"] * self._ws()
            self.probe("path_search_bounded_by_the_exact_distance" if st["bound"] == 0 else "path_search_bounded")
            rv, exc = self.call(net.shortest_path, a, b, cut)
        elif rec is not None:
            rv, exc = self.call(net.shortest_path, a, b, 1e300, rec)
        else:
            rv, exc = self.call(net.shortest_path, self._np(a), self._np(b))
        if exc is not None:
            return self._unexpected("C07", exc, "shortest_path(%s, %s)" % (a, b))
        if rec:
            d = self._fw(m)
            for (src, n2), val in rec.items():
                if src != a or n2 not in m["nodes"] or not self._deq(m, val, d[(a, n2)]):
                    self.fail("C06", "table.recorded", "distance recorded in the caller's table during "
                              "shortest_path(%s, %s) for pair %s" % (a, b, [src, n2]), d.get((a, n2)), val)
                    return
            self.probe("distances_recorded_during_path_search")
        ok = self._judge_path(m, a, b, rv, "shortest_path(%s, %s)" % (a, b))
        if ok and rv is not None and st.get("scribble"):
            # the returned route belongs to the caller: editing it in place must not reach
            # into the network (later queries are judged against the unchanged model)
            for o in rv:
                o.position.setX(o.position.getX() + 3.0)
                o.position.setY(o.position.getY() - 2.0)
            self.probe("caller_edits_returned_route_in_place")
        if ok:
            rd, exc = self.call(net.shortest_distance, a, b)
            d = self._fw(m)[(a, b)]
            if exc is None and d != INF and not self._deq(m, rd, d):
                self.fail("C07", "path.distance", "shortest_distance after shortest_path", d, rd)

    def op_forward(self, st):
        """First phase of the documented two-phase API, as a step of its own: other steps that
        do not search this network may come before the reconstructions."""
        net, m = self._sess_exact(st)
        if m.get("shared"):
            raise Skip()            # an extracted sub-network shares its Node objects (labels) with its parent
        a = self._node(m, st["a"])
        m["last_source"] = a
        _, exc = self.call(net.run_routing_forward, a)
        if exc is not None:
            return self._unexpected("C07", exc, "run_routing_forward(%s)" % a)
        m["fwd"] = {"src": a, "nodes": list(m["nodes"])}
        self.observed(a)

    def op_backward(self, st):
        net, m = self._sess_exact(st)
        f = m.get("fwd")
        if not f or m.get("shared"):
            raise Skip()
        ids = f["nodes"]
        b = ids[st["b"] % len(ids)]
        if b == f["src"]:
            raise Skip()
        if st["b"] % 3 == 0:
            from tracklib.core import Node, ENUCoords
            self.probe("query_with_node_objects_of_another_network")
            rv, exc = self.call(net.run_routing_backward, Node(b, ENUCoords(0, 0, 0)))
        else:
            rv, exc = self.call(net.run_routing_backward, b)
        if exc is not None:
            return self._unexpected("C07", exc, "run_routing_backward(%s), some steps after run_routing_forward(%s)"
                                    % (b, f["src"]))
        self.probe("reconstruction_some_steps_after_the_search")
        self._judge_path(m, f["src"], b, rv, "run_routing_backward(%s), some steps after run_routing_forward(%s)"
                         % (b, f["src"]))

    def op_path_multi(self, st):
        """One forward search from a, then several backward reconstructions: the
        documented two-phase API; every reconstruction reads the labels the
        single forward pass left on the nodes."""
        net, m = self._sess_exact(st)
        a = self._node(m, st["a"])
        m["last_source"] = a
        _, exc = self.call(net.run_routing_forward, a)
        if exc is not None:
            return self._unexpected("C07", exc, "run_routing_forward(%s)" % a)
        seen = []
        for ti in st["targets"]:
            b = self._node(m, ti)
            if b == a:
                continue
            rv, exc = self.call(net.run_routing_backward, b)
            if exc is not None:
                return self._unexpected("C07", exc, "run_routing_backward(%s) after forward(%s)" % (b, a))
            seen.append(b)
            if not self._judge_path(m, a, b, rv, "run_routing_backward(%s) after run_routing_forward(%s)" % (b, a)):
                return
        if len(seen) > 1:
            self.probe("several_reconstructions_from_one_search")
        self.observed(seen)

    def _judge_path(self, m, a, b, rv, where):
        d = self._fw(m)[(a, b)]
        if d == INF:
            self.probe("target_unreachable")
            self.observed(None)
            if rv is not None:
                self.fail("C07", "path.unreachable", "%s: no permitted walk %s -> %s but a path is returned"
                          % (where, a, b), None, getattr(rv, "path", repr(rv)))
                return False
            return True
        if rv is None:
            self.fail("C07", "path.missing", "%s: %s -> %s is reachable (distance %s) but no path is returned"
                      % (where, a, b, d), "a path", None)
            return False
        if not hasattr(rv, "path") or not hasattr(rv, "getObs"):
            self.fail("C07", "path.nodes", "%s: the returned route carries no list of nodes" % where,
                      "a track with its node list (.path)", type(rv).__name__)
            return False
        path = list(rv.path)
        self.observed(path)
        coords = [[o.position.getX(), o.position.getY()] for o in rv]
        zero = any(e["w"] == 0 and e["s"] != e["t"] for e in m["edges"])
        if not path or path[0] != a or path[-1] != b:
            self.fail("C07", "path.ends", "%s: node list must run from %s to %s" % (where, a, b), [a, "...", b], path,
                      zero_weight_edges=zero)
            return False
        # dynamic programme over the parallel edges between consecutive nodes
        states = {(0, (tuple(m["nodes"][a]),))}
        for u, v in zip(path, path[1:]):
            new = set()
            for e in m["edges"]:
                cands = []
                if e["s"] == u and e["t"] == v and e["o"] >= 0:
                    cands.append(e["pts"])
                if e["t"] == u and e["s"] == v and e["o"] <= 0:
                    cands.append(e["pts"][::-1])
                    if len(e["pts"]) > 2:
                        self.probe("multi_vertex_edge_travelled_against_storage")
                for gpts in cands:
                    for (tw, geo) in states:
                        new.add((tw + e["w"], geo + tuple(tuple(p) for p in gpts[1:])))
            if not new:
                self.fail("C07", "path.walk", "%s: no edge may be traversed from %s to %s" % (where, u, v),
                          "a permitted edge between consecutive nodes", path, zero_weight_edges=zero)
                return False
            if len(new) > 4096:
                return True          # too many parallel combinations to enumerate: not judged
            states = new
        okw = [geo for (tw, geo) in states if self._deq(m, tw, d)]
        if not okw:
            self.fail("C07", "path.weight", "%s: weights along %s do not sum to the shortest distance" % (where, path),
                      d, sorted(set(tw for tw, _ in states))[:5], zero_weight_edges=zero)
            return False
        def same(geo):
            if not m.get("ragged"):
                return [list(p) for p in geo] == coords
            # after a geographic round trip (coordinates written as degrees with ten decimals: about
            # 1e-5 m) a junction and the end vertices of the edges added since differ in the last
            # digits: the chain is compared to a tenth of a millimetre
            return len(geo) == len(coords) and all(math.dist(p, c) <= 1e-4 for p, c in zip(geo, coords))
        if not any(same(geo) for geo in okw):
            self.fail("C07", "path.geometry", "%s: geometry of %s is not the chained, travel-oriented edge polylines"
                      % (where, path), [list(p) for p in okw[0]], coords, zero_weight_edges=zero)
            return False
        if len(path) > 2:
            self.probe("path_with_3_or_more_nodes")
        self._probe_route(m, a, b)
        return True

    # ------------------------------------------------------------------ reload
    def op_reload(self, st):
        """Write the network to the simulated disk, drop the object, load it again
        and continue the history on the loaded object (weights become lengths)."""
        from tracklib.io.network_writer import NetworkWriter
        from tracklib.io.network_reader import NetworkReader
        from tracklib.io.network_format import NetworkFormat
        net, m = self._sess(st)
        if not m["edges"]:
            raise Skip()
        if any(len(e["pts"]) == 2 and e["pts"][0] == e["pts"][1] for e in m["edges"]):
            raise Skip()
        if any(not isinstance(e["id"], str) for e in m["edges"]) or "" in m["nodes"] or m.get("broken") is not None:
            raise Skip()            # a file stores identifiers as text: integer / empty identifiers do not survive by design
        path = "/sim/net%d.csv" % st.get("s", 0)
        self.fs.plan.arm(st.get("fault"))
        if st.get("fault"):
            self.stats["fault_armed:" + st["fault"]["kind"]] += 1
        with_w = bool(st.get("weights")) and m["exact"]

        fmtbox = {}
        getattr(self, "netfiles", {}).pop(st.get("s", 0), None)      # the file is about to be overwritten

        def write_then_read():
            NetworkWriter.writeToCsv(net, path, st["sep"], 1)
            if with_w:
                # another program adds a weight column to the file (the writer has none): the weights
                # of the model, printed exactly, zeros included
                lines = self.fs.files[path].split("\n")
                perm = st.get("perm") or list(range(6))          # perm[c] = column where field c goes
                out = []
                for k, ln in enumerate(lines):
                    if not ln:
                        out.append(ln)
                        continue
                    parts = ln.split(st["sep"], 4)
                    w = "weight" if k == 0 else repr(float(m["edges"][k - 1]["w"]))
                    fields = parts[:4] + [w, parts[4]]            # id, source, target, direction, weight, wkt
                    row = [None] * 6
                    for c, v in enumerate(fields):
                        row[perm[c]] = v
                    out.append(st["sep"].join(row))
                self.fs.files[path] = "\n".join(out)
                if perm != list(range(6)):
                    self.probe("network_file_with_columns_in_another_order")
                fmt = NetworkFormat({"pos_edge_id": perm[0], "pos_source": perm[1], "pos_target": perm[2],
                                     "pos_direction": perm[3], "pos_weight": perm[4], "pos_wkt": perm[5],
                                     "separator": st["sep"], "header": 1, "srid": "ENU"})
            else:
                fmt = NetworkFormat({"pos_edge_id": 0, "pos_source": 1, "pos_target": 2, "pos_direction": 3,
                                     "pos_wkt": 4, "separator": st["sep"], "header": 1, "srid": "ENU"})
            fmtbox["fmt"] = fmt
            return NetworkReader.readFromFile(path, fmt, False)
        if (st.get("fault") or {}).get("kind") == "interrupt":
            with simfs.Interrupter(self.fs.plan):
                new, exc = self.call(write_then_read)
        else:
            new, exc = self.call(write_then_read)
        fired = self.fs.plan.fired
        if fired:
            self.stats["fault_fired:" + self.fs.plan.kind] += 1
        self.fs.plan.clear()
        if exc is not None:
            if fired:
                return "fault"                 # the session keeps its in-memory network
            return self._unexpected("C06", exc, "network reload")
        self.real[st.get("s", 0)] = new
        self._drop_lone(m)
        if m.get("ragged"):
            # roads end a few micrometres from the junction they were registered at: a file keeps the road
            # ends only, the junctions of the network read back are where the first road mentioning them ends
            for v in m["nodes"]:
                c = new.getNode(v).coord
                m["nodes"][v] = [c.getX(), c.getY()]
        if with_w:
            self.probe("network_loaded_from_a_file_with_weights")
            m.update({"fw": None, "index": None, "prepared": None, "ptable": None, "grown_since_prepare": False,
                      "all_abs": True})
        else:
            for e in m["edges"]:
                e["w"] = plen(e["pts"])
            m.update({"fw": None, "index": None, "prepared": None, "ptable": None, "grown_since_prepare": False,
                      "exact": False, "all_abs": True})
        m.pop("shared", None)
        m.pop("group", None)
        m["broken"] = None
        m["astar"] = False
        for k in [k for k in self.tracks if k[0] == st.get("s", 0)]:
            del self.tracks[k]
        self.probe("network_loaded_from_disk")
        import copy as _copy
        if not hasattr(self, "netfiles"):
            self.netfiles = {}
        self.netfiles[st.get("s", 0)] = {"path": path, "fmt": fmtbox.get("fmt"), "model": _copy.deepcopy(m)}
        # structure of the loaded network
        got = [[e.id, e.source.id, e.target.id, e.orientation] for e in (new.getEdge(i) for i in new.getEdgesId())]
        exp = [[e["id"], e["s"], e["t"], e["o"]] for e in m["edges"]]
        if got != exp:
            self.fail("C06", "network.reload_structure", "edges of the reloaded network", exp, got)

    def op_load_copy(self, st):
        """A second user loads the file the other session's network was last written to: two
        independent networks read from the same text."""
        from tracklib.io.network_reader import NetworkReader
        import copy as _copy
        s, src = st.get("s", 0), st["from"]
        f = getattr(self, "netfiles", {}).get(src)
        if f is None or f["fmt"] is None or src == s or f["path"] not in self.fs.files:
            raise Skip()
        new, exc = self.call(NetworkReader.readFromFile, f["path"], f["fmt"], False)
        if exc is not None:
            return self._unexpected("C06", exc, "readFromFile of the other session's network file")
        self.real[s] = new
        self.model[s] = _copy.deepcopy(f["model"])
        for k in [k for k in self.tracks if k[0] == s]:
            del self.tracks[k]
        for k in [k for k, ff in getattr(self, "files", {}).items() if ff["owner"] == s]:
            del self.files[k]
        getattr(self, "idx_files", {}).pop("/sim/index_%d.pkl" % s, None)
        self.probe("two_networks_read_from_the_same_file")

    def op_noise_net(self, st):
        """A second user simulates a degraded copy of the other session's road network: every edge
        geometry goes through stochastics.noise() with both ends pinned, the abscissas are computed
        on the result (as the user would: computeAbsCurv), and a network of his own is built from
        those lines.  What noise() draws is not judged (the new vertices are adopted); the other
        session's network must not move, and matchings on the new network are judged as usual."""
        import numpy
        from tracklib.core import Network, Node, Edge, ENUCoords
        from tracklib.core.kernel import GaussianKernel
        from tracklib.algo import stochastics as sto
        from tracklib.algo.cinematics import computeAbsCurv
        s, src = st.get("s", 0), st["from"]
        if src == s or src not in self.model or s not in self.real:
            raise Skip()
        net0, m0 = self.real[src], self.model[src]
        if not m0["edges"] or not self.cfg["road"] or not m0["all_abs"] or m0.get("broken") is not None \
                or len(m0["edges"]) > 12 or any(len(e["pts"]) > 20 for e in m0["edges"]):
            raise Skip()
        lines = []
        for k, e in enumerate(m0["edges"]):
            g = net0.getEdge(e["id"]).geom
            if st.get("ortho"):
                # a simulated drive along the road first (noise across the direction of travel, no pinned
                # point): the result is the driver's; whether noise() accepts the line is not judged
                numpy.random.seed(st["seed"] + k)
                _, exc = self.call(sto.noise, g, [0.2], [GaussianKernel(3.0)], sto.DISTRIBUTION_NORMAL,
                                   sto.MODE_DISTANCE_LINEAR, False, False, [], sto.MODE_DIRECTION_ORTHO)
                if exc is not None and not isinstance(exc, Exception):
                    return self._unexpected("C10", exc, "noise() across an edge geometry")
                self.probe("noise_ortho_on_edge_geometry" if exc is None else "noise_ortho_refused")
            numpy.random.seed(st["seed"] + k)
            nz, exc = self.call(sto.noise, g, [0.2], [GaussianKernel(3.0)], sto.DISTRIBUTION_NORMAL,
                                sto.MODE_DISTANCE_LINEAR, False, False, [0, len(e["pts"]) - 1], sto.MODE_DIRECTION_XY)
            if exc is None:
                _, exc = self.call(computeAbsCurv, nz)
            if exc is not None:
                if isinstance(exc, Exception):
                    raise Skip()            # (which lines noise() accepts is not this world's subject)
                return self._unexpected("C10", exc, "noise() on an edge geometry")
            lines.append(nz)
        new = Network()
        for e, nz in zip(m0["edges"], lines):
            ed = Edge(e["id"], nz)
            ed.orientation = e["o"]
            ed.weight = nz.length()
            pa, pb = m0["nodes"][e["s"]], m0["nodes"][e["t"]]
            _, exc = self.call(new.addEdge, ed, Node(e["s"], ENUCoords(pa[0], pa[1], 0)),
                               Node(e["t"], ENUCoords(pb[0], pb[1], 0)))
            if exc is not None:
                return self._unexpected("C06", exc, "addEdge of a noised geometry")
        edges = []
        for e, nz in zip(m0["edges"], lines):
            pts = [[o.position.getX(), o.position.getY()] for o in nz]
            edges.append({"id": e["id"], "s": e["s"], "t": e["t"], "o": e["o"], "w": float(nz.length()), "pts": pts})
        used = []
        for e in edges:
            for v in (e["s"], e["t"]):
                if v not in used:
                    used.append(v)
        self.real[s] = new
        nodes = {}
        for v in used:                  # pinned ends keep a residual of a micrometre: junction positions as registered
            c = new.getNode(v).coord
            nodes[v] = [c.getX(), c.getY()]
        self.model[s] = {"nodes": nodes, "edges": edges, "fw": None, "index": None,
                         "prepared": None, "ptable": None, "grown_since_prepare": False, "exact": False,
                         "all_abs": True, "ragged": True}
        for k in [k for k in self.tracks if k[0] == s]:
            del self.tracks[k]
        for k in [k for k, ff in getattr(self, "files", {}).items() if ff["owner"] == s]:
            del self.files[k]
        getattr(self, "idx_files", {}).pop("/sim/index_%d.pkl" % s, None)
        getattr(self, "netfiles", {}).pop(s, None)
        self.probe("network_built_from_noised_geometries")

    def op_geo_roundtrip(self, st):
        """The network is converted to geographic coordinates, written, read back as a
        geographic network and projected again (Network.toGeoCoords / toENUCoords): what the
        conversions compute is C14's subject -- geometries and node positions are adopted --
        but the abscissas the reader computed on the geographic vertices must still describe
        the projected geometries to the tolerance of the matching oracle."""
        from tracklib.core import GeoCoords
        from tracklib.io.network_writer import NetworkWriter
        from tracklib.io.network_reader import NetworkReader
        from tracklib.io.network_format import NetworkFormat
        net, m = self._sess(st)
        if not m["edges"] or m.get("shared") or m.get("group") or m.get("broken") is not None \
                or any(not isinstance(e["id"], str) for e in m["edges"]) or "" in m["nodes"]:
            raise Skip()
        if any(len(e["pts"]) == 2 and e["pts"][0] == e["pts"][1] for e in m["edges"]):
            raise Skip()
        base = GeoCoords(2.0, 48.0, 0.0)
        path = "/sim/netgeo%d.csv" % st.get("s", 0)

        def go():
            net.toGeoCoords(base)
            NetworkWriter.writeToCsv(net, path, st["sep"], 1)
            fmt = NetworkFormat({"pos_edge_id": 0, "pos_source": 1, "pos_target": 2, "pos_direction": 3,
                                 "pos_wkt": 4, "separator": st["sep"], "header": 1, "srid": "GEO"})
            new = NetworkReader.readFromFile(path, fmt, False)
            new.toENUCoords(base)
            return new
        new, exc = self.call(go)
        if exc is not None:
            if isinstance(exc, Exception):
                # (the in-memory network is now geographic: this session ends here)
                s_ = st.get("s", 0)
                self.real.pop(s_, None)
                self.model.pop(s_, None)
                return "domain"
            return self._unexpected("C10", exc, "geographic round trip of the network")
        got = [[e.id, e.source.id, e.target.id, e.orientation] for e in (new.getEdge(i) for i in new.getEdgesId())]
        exp = [[e["id"], e["s"], e["t"], e["o"]] for e in m["edges"]]
        if got != exp:
            self.fail("C06", "network.reload_structure", "edges of the network after the geographic round trip", exp, got)
            return
        self.real[st.get("s", 0)] = new
        self._drop_lone(m)
        for e in m["edges"]:
            g = new.getEdge(e["id"]).geom
            e["pts"] = [[o.position.getX(), o.position.getY()] for o in g]
            wv = g.length()             # three-dimensional: the heights are not exactly zero any more
            new.getEdge(e["id"]).weight = wv
            e["w"] = float(wv)
        for v in list(m["nodes"]):
            c = new.getNode(v).coord
            m["nodes"][v] = [c.getX(), c.getY()]
        m.update({"fw": None, "index": None, "prepared": None, "ptable": None, "grown_since_prepare": False,
                  "exact": False, "all_abs": True, "astar": False})
        for k in [k for k in self.tracks if k[0] == st.get("s", 0)]:
            del self.tracks[k]
        m["ragged"] = True
        self.probe("network_went_through_geographic_coordinates")

    def op_set_routing(self, st):
        """One user selects the routing algorithm of *his* network.  A* is documented as
        approximate: while a session's network is in A* mode its answers are recorded, not
        judged; every other network of the process stays exact.  An unknown value is only
        requested while the network is in Dijkstra mode (whether the library refuses it or
        falls back to Dijkstra, the network must keep answering exactly)."""
        net, m = self._sess(st)
        k = st["mode"]
        if k == "unknown":
            if m.get("astar"):
                raise Skip()
            _, exc = self.call(net.setRoutingMethod, st["value"])
            self.stats["fault_fired:rejected_request"] += 1
            self.probe("unknown_routing_method_requested")
            self.observed(["unknown", None if exc is None else type(exc).__name__])
            return "rejected" if exc is not None else "ok"
        _, exc = self.call(net.setRoutingMethod, 1 if k == "astar" else 0)
        if exc is None and k == "astar":
            _, exc = self.call(net.setAStarWeight, st["wgt"])
        if exc is not None:
            return self._unexpected("C06", exc, "setRoutingMethod")
        m["astar"] = (k == "astar")
        self.probe("a_star_selected_on_one_network" if m["astar"] else "dijkstra_selected")

    def op_break_weight(self, st):
        """The caller stores something that is not a number as a weight (None: "unknown").  From
        now on a search that relaxes this edge fails with TypeError -- in the middle of its loop.
        While the weight is broken, answers are recorded, not judged; once the caller has repaired
        it (set_weight) every answer is judged again: nothing of a failed search may survive."""
        net, m = self._sess(st)
        if not m["edges"] or not m["exact"] or m.get("shared") or m.get("broken") is not None:
            raise Skip()
        k = st["e"] % len(m["edges"])
        net.getEdge(m["edges"][k]["id"]).weight = None
        m["broken"] = k
        m["fw"] = None
        self.stats["fault_fired:weight_not_a_number"] += 1
        self.probe("search_fails_inside_its_loop_until_the_weight_is_repaired")

    def op_inspect_edge(self, st):
        """Another part of the library is handed an edge geometry of the network to look at
        (selection constraint, WKT, length, bounding box, copy, noise, simplification, slicing).
        None of them may edit the network: the per-step invariant compares every geometry."""
        net, m = self._sess(st)
        if not m["edges"]:
            raise Skip()
        g = net.getEdge(m["edges"][st["e"] % len(m["edges"])]["id"]).geom
        how = st["how"]
        if how == "constraint":
            from tracklib.algo.selection import TrackConstraint
            _, exc = self.call(TrackConstraint, g)
        elif how == "wkt":
            _, exc = self.call(g.toWKT)
        elif how == "length":
            _, exc = self.call(g.length)
        elif how in ("bbox", "net_bbox"):
            bb, exc = self.call(g.bbox if how == "bbox" else net.bbox)
            if exc is None and bb is not None:
                # the box belongs to the caller, who enlarges and moves it (a map frame)
                _, exc = self.call(lambda: (bb.addMargin(0.05), bb.translate(1.5, -2.0)))
                self.probe("caller_edits_returned_bbox_in_place")
        elif how == "net_plot":
            import matplotlib.pyplot as plt
            try:
                _, exc = self.call(net.plot)
            finally:
                plt.close("all")
            if isinstance(exc, Exception):
                exc = None
        elif how == "net_stats":
            _, exc = self.call(lambda: (net.totalLength(), net.getNumberOfVertices(), str(net)[:10],
                                        [net.degree(i) for i in net.getNodesId()][:3]))
            for acc in ("getIncidentEdges", "getAdjacentNodes", "getNextNodes", "getPrevNodes", "getNextEdges",
                        "getPrevEdges"):
                # read-only accessors, every junction (the lists they hand out are only looked at: the
                # network hands out its own successor lists)
                def look(acc=acc):
                    for i in net.getNodesId():
                        len(getattr(net, acc)(i))
                self.call(look)
            self.probe("adjacency_accessors_called_on_every_junction")
            if isinstance(exc, Exception):
                exc = None              # (what these summaries accept is not this world's subject)
        elif how == "reverse_abs":
            # another user wants the road in the other direction, with abscissas of its own
            from tracklib.algo.cinematics import computeAbsCurv as _cabs
            rv_, exc = self.call(g.reverse)
            if exc is None and rv_ is not None:
                def redo():
                    if rv_.hasAnalyticalFeature("abs_curv"):
                        rv_.removeAnalyticalFeature("abs_curv")
                    _cabs(rv_)
                _, exc = self.call(redo)
                if isinstance(exc, Exception):
                    exc = None          # (whether the reversed copy can be measured is not this world's subject)
                self.probe("reversed_copy_of_a_geometry_measured_again")
        elif how == "net_deepcopy":
            # another user takes a deep copy of the whole network and edits the copy (junctions moved,
            # geometries shifted, roads re-weighted): the copy is his
            import copy as _copy
            fault = st.get("fault")
            if fault:
                # ... and gives up half-way (Ctrl-C during the copy of a large network)
                self.fs.plan.arm(fault)
                self.stats["fault_armed:interrupt"] += 1
                with simfs.Interrupter(self.fs.plan, traced=("/copy.py", "/tracklib/core/network.py")):
                    cp, exc = self.call(_copy.deepcopy, net)
                fired = self.fs.plan.fired
                self.fs.plan.clear()
                if fired:
                    self.stats["fault_fired:interrupt"] += 1
                    self.probe("interrupted_deep_copy_of_the_network")
                    return "fault"
            else:
                cp, exc = self.call(_copy.deepcopy, net)
            if exc is None:
                def edit():
                    done = set()
                    for i in cp.getNodesId():
                        c = cp.getNode(i).coord
                        if id(c) not in done:
                            done.add(id(c))
                            c.setX(c.getX() + 5.0)
                    for i in cp.getEdgesId():
                        ed = cp.getEdge(i)
                        ed.weight = ed.weight + 1.0
                        for o in ed.geom:
                            if id(o.position) not in done:
                                done.add(id(o.position))
                                o.position.setY(o.position.getY() - 3.0)
                _, exc = self.call(edit)
                self.probe("deep_copy_of_the_network_edited")
        elif how == "copy":
            cp, exc = self.call(g.copy)
            if exc is None:
                for o in cp:
                    o.position.setX(o.position.getX() + 7.0)        # the copy belongs to the caller
        elif how == "all_copy":
            coll, exc = self.call(lambda: net.getAllEdgeGeoms().copy())
            if exc is None:
                for tr in coll:
                    tr.scale(0.9996)                    # the copy belongs to the caller
        elif how == "noise":
            import numpy
            from tracklib.algo.stochastics import noise
            numpy.random.seed(st["e"])
            _, exc = self.call(noise, g, [1.0])
        elif how == "simplify":
            from tracklib.algo.simplification import simplify
            _, exc = self.call(simplify, g, 1.0, 2)
        else:
            _, exc = self.call(g.__gt__, 1)
        if exc is not None and not isinstance(exc, Exception):
            return self._unexpected("C07", exc, "looking at an edge geometry (%s)" % how)
        self.probe("edge_geometry_handed_to_another_subsystem")
        self.observed([how, None if exc is None else type(exc).__name__])

    def op_set_weight(self, st):
        """The caller re-weighs an edge (public attribute): a road gets slower or faster."""
        net, m = self._sess(st)
        if not m["edges"] or not m["exact"] or m.get("shared"):
            raise Skip()            # (an extracted sub-network shares its Edge objects with the parent)
        if m.get("broken") is not None:
            if st["e"] % len(m["edges"]) != m["broken"]:
                raise Skip()
            m["broken"] = None
            self.probe("broken_weight_repaired")
        e = m["edges"][st["e"] % len(m["edges"])]
        old = e["w"]
        net.getEdge(e["id"]).weight = st["w"]
        e["w"] = st["w"]
        m["fw"] = None
        m["version"] = m.get("version", 0) + 1
        if m["prepared"] is not None:
            m["grown_since_prepare"] = True
        self.probe("edge_weight_raised" if st["w"] > old else "edge_weight_lowered_or_kept")
        self.observed([e["id"], st["w"]])

    def _prep_path(self, st):
        # slot 0: "town", slot 1: "town.v1" -- a dotted name next to a file under its stem
        return "/sim/prep_%d" % st.get("s", 0) + (".v1" if st.get("slot", 0) else "")

    def _armed(self, st):
        self.fs.plan.arm(st.get("fault"))
        if st.get("fault"):
            self.stats["fault_armed:" + st["fault"]["kind"]] += 1

    def _fired(self):
        fired, kind = self.fs.plan.fired, self.fs.plan.kind
        if fired:
            self.stats["fault_fired:" + kind] += 1
        self.fs.plan.clear()
        return fired

    def op_save_prep(self, st):
        """Network.save_prep: the prepared table goes to the simulated disk."""
        net, m = self._sess(st)
        if m["prepared"] is None:
            raise Skip()
        path = self._prep_path(st)
        self._armed(st)
        _, exc = self.call(net.save_prep, path)
        fired = self._fired()
        self.files = getattr(self, "files", {})
        if exc is not None:
            self.files.pop(path, None)
            if fired:
                return "fault"
            return self._unexpected("C06", exc, "save_prep")
        # what the file holds: the table as it is now (judged when it was filled)
        self.files[path] = {"owner": st.get("s", 0), "cut": m["prepared"], "table": dict(m["ptable"]),
                            "stale": m["grown_since_prepare"]}
        self.probe("prepared_table_saved")

    def op_load_prep(self, st):
        """Network.load_prep of a table this session saved earlier.  When the load fails (file
        missing, unreadable) the table the network already has must stay what it was."""
        net, m = self._sess(st)
        path = self._prep_path(st)
        f = getattr(self, "files", {}).get(path)
        fault = st.get("fault")
        if f is None and not fault:
            fault = {"kind": "open_error", "at": 1, "errno": 2}       # never saved: the file does not exist
        if f is not None and f["owner"] != st.get("s", 0):
            raise Skip()
        if m["prepared"] is None and (f is None or fault):
            raise Skip()
        self._armed(dict(st, fault=fault) if fault else st)
        _, exc = self.call(net.load_prep, path)
        fired = self._fired()
        if exc is not None:
            if fired or f is None:
                self.probe("load_of_prepared_table_failed")
                return "fault"                # model unchanged: later prepared distances are judged as before
            return self._unexpected("C06", exc, "load_prep")
        if fired:
            self.probe("fault_swallowed_by_call")
        if f is None:
            self.fail("C06", "load_prep.missing", "load_prep of a file that was never written returned normally",
                      "an exception", "normal return")
            return
        m["prepared"] = f["cut"]
        m["ptable"] = dict(f["table"])
        m["grown_since_prepare"] = True           # (only a label for the probes: the table is modelled exactly)
        self.probe("prepared_table_loaded")
        self._cmp_table(m, dict(net.DISTANCES), m["ptable"], "prepared table after load_prep")

    def op_save_index(self, st):
        """Network.exportSpatialIndex: the index is pickled to the simulated disk."""
        net, m = self._sess(st)
        if m["index"] is None:
            raise Skip()
        path = "/sim/index_%d.pkl" % st.get("s", 0)
        self._armed(st)
        _, exc = self.call(net.exportSpatialIndex, path)
        fired = self._fired()
        self.idx_files = getattr(self, "idx_files", {})
        if exc is not None:
            self.idx_files.pop(path, None)
            if fired:
                return "fault"
            return self._unexpected("C10", exc, "exportSpatialIndex")
        if fired:
            self.probe("fault_swallowed_by_call")
            self.idx_files.pop(path, None)
            return "fault"
        self.idx_files[path] = {"extent": m["index"]["extent"], "nedges": len(m["edges"])}
        self.probe("spatial_index_saved")

    def op_load_index(self, st):
        """Network.importSpatialIndex of the file this session saved.  A failed load leaves the
        index the network had; a loaded index may predate edges added since (by design: matched
        points must still lie on real edges within the radius)."""
        net, m = self._sess(st)
        path = "/sim/index_%d.pkl" % st.get("s", 0)
        f = getattr(self, "idx_files", {}).get(path)
        if f is None or m["index"] is None:
            raise Skip()
        self._armed(st)
        _, exc = self.call(net.importSpatialIndex, path)
        fired = self._fired()
        if exc is not None:
            if fired:
                self.probe("load_of_spatial_index_failed")
                return "fault"
            return self._unexpected("C10", exc, "importSpatialIndex")
        m["index"] = {"extent": f["extent"]}
        self.probe("spatial_index_loaded")

    def op_annotate_edges(self, st):
        """The caller attaches an attribute of his own (maxspeed) to every edge geometry, then
        re-surveys one road: its abscissa is removed and computed again, so on that geometry it
        now sits in another column than on the others."""
        from tracklib.algo.cinematics import computeAbsCurv
        net, m = self._sess(st)
        if not m["edges"] or not m["all_abs"] or m.get("shared"):
            raise Skip()
        for k, e in enumerate(m["edges"]):
            g = net.getEdge(e["id"]).geom
            if not g.hasAnalyticalFeature("maxspeed"):
                _, exc = self.call(g.createAnalyticalFeature, "maxspeed", 1000.0 + k)
                if exc is not None:
                    return self._unexpected("C10", exc, "createAnalyticalFeature on an edge geometry")
        if st.get("resurvey"):
            g = net.getEdge(m["edges"][st["e"] % len(m["edges"])]["id"]).geom
            _, exc = self.call(g.removeAnalyticalFeature, "abs_curv")
            if exc is None:
                _, exc = self.call(computeAbsCurv, g)
            if exc is not None:
                return self._unexpected("C10", exc, "recomputing abs_curv on one edge geometry")
            self.probe("abscissa_in_different_columns_on_different_edges")
        self.probe("attribute_attached_to_edge_geometries")

    def op_abs_again(self, st):
        """computeAbsCurv once more on every edge geometry (a no-op by contract)."""
        from tracklib.algo.cinematics import computeAbsCurv
        net, m = self._sess(st)
        if not m["edges"]:
            raise Skip()
        if not m["all_abs"]:
            self.probe("abs_curv_computed_on_simplified_geometries")
        m["all_abs"] = True
        for e in m["edges"]:
            for _ in range(2 if st.get("twice") else 1):
                _, exc = self.call(computeAbsCurv, net.getEdge(e["id"]).geom)
                if exc is not None:
                    return self._unexpected("C10", exc, "computeAbsCurv on an edge geometry")
        self.probe("abs_curv_recomputed_on_edge_geometries")

    def op_rescale(self, st):
        """The caller changes the unit of the whole network in place (km -> m): every
        geometry and node position is scaled, curvilinear abscissas are removed and computed
        again, weights are set to the new lengths; index and prepared table are rebuilt later."""
        from tracklib.algo.cinematics import computeAbsCurv
        net, m = self._sess(st)
        if not m["edges"] or not m["all_abs"] or m.get("shared") or not self.cfg["road"]:
            raise Skip()
        h = st["h"]
        # position objects of the geometries (a network read from a file uses the end vertex of an
        # edge geometry as the coordinate object of the node): every object is scaled exactly once
        in_geom = set(id(o.position) for e in m["edges"] for o in net.getEdge(e["id"]).geom)
        if len(in_geom) != sum(len(e["pts"]) for e in m["edges"]):
            raise Skip()            # geometries share vertex objects with each other
        seen = set()
        for e in m["edges"]:
            ed = net.getEdge(e["id"])
            g = ed.geom
            _, exc = self.call(g.scale, h)
            if exc is not None:
                return self._unexpected("C10", exc, "Track.scale on an edge geometry")
            for nd in (ed.source, ed.target):
                if nd.id not in seen:
                    seen.add(nd.id)
                    if id(nd.coord) not in in_geom:
                        nd.coord.scale(h)
            _, exc = self.call(g.removeAnalyticalFeature, "abs_curv")
            if exc is None:
                _, exc = self.call(computeAbsCurv, g)
            if exc is not None:
                return self._unexpected("C10", exc, "recomputing abs_curv on a scaled edge geometry")
            e["pts"] = [[o.position.getX(), o.position.getY()] for o in g]      # adopted (scaling is not C10's subject)
            # the weight is what the user assigns: the length the library reports (three-dimensional --
            # after a geographic round trip the heights are not zero --, and not C06's subject)
            wv, exc = self.call(g.length)
            if exc is not None:
                return self._unexpected("C10", exc, "Track.length of an edge geometry")
            ed.weight = wv
            e["w"] = float(wv)
        for v in list(m["nodes"]):
            c = net.getNode(v).coord
            m["nodes"][v] = [c.getX(), c.getY()]
        m.update({"fw": None, "index": None, "prepared": None, "ptable": None, "grown_since_prepare": False,
                  "exact": False})
        net.spatial_index = None
        net.DISTANCES = None
        m["scale"] = m.get("scale", 1.0) * h
        for k in [k for k in self.tracks if k[0] == st.get("s", 0)]:
            del self.tracks[k]
        self.probe("network_rescaled_in_place")

    def op_sub_network(self, st):
        """Network.sub_network runs a forward search on the parent and builds a second
        network from the *same* Edge and Node objects.  Which edges it keeps is not C06's
        subject (the content is adopted); what is judged is that every later answer of the
        parent -- and of the extracted network, when it becomes a session -- is still a true
        minimum on its own graph."""
        from tracklib.core import ENUCoords
        net, m = self._sess(st)
        if not m["edges"] or m.get("broken") is not None:
            raise Skip()
        a = self._node(m, st["a"])
        if st.get("refused"):
            src = "no such junction" if st["refused"] == "unknown" else ENUCoords(m["nodes"][a][0], m["nodes"][a][1], 0)
            rv, exc = self.call(net.sub_network, src, st["cut"], "TOPOLOGIC", False)
            self.stats["fault_fired:rejected_request"] += 1
            self.probe("sub_network_request_refused" if exc is not None else "sub_network_request_not_refused")
            self.observed(["refused", None if exc is None else type(exc).__name__])
            return "rejected" if exc is not None else "ok"
        if st["mode"] == "GEOMETRIC":
            if m["index"] is not None:
                raise Skip()        # geometric extraction through a spatial index raises TypeError on the
                                    # unchanged tree (it indexes the integers neighborhood() returns): not C06
            src = ENUCoords(m["nodes"][a][0], m["nodes"][a][1], 0)
        else:
            src = a
        m["last_source"] = a
        rv, exc = self.call(net.sub_network, src, st["cut"], st["mode"], False)
        if exc is not None:
            return self._unexpected("C06", exc, "sub_network(%s, %s, %s)" % (a, st["cut"], st["mode"]))
        ids, nids = list(rv.getEdgesId()), list(rv.getNodesId())
        by_id = {e["id"]: e for e in m["edges"]}
        if any(i not in by_id for i in ids) or len(set(ids)) != len(ids):
            self.fail("C06", "subnet.edges", "sub_network returned edges the parent does not have", sorted(by_id, key=repr), ids)
            return
        self.probe("sub_network_extracted")
        self.observed([len(ids), len(nids)])
        to = st.get("to")
        if to is None or to == st.get("s", 0) or not ids:
            return
        if any(v not in m["nodes"] for v in nids):
            self.fail("C06", "subnet.nodes", "sub_network returned nodes the parent does not have", sorted(m["nodes"], key=repr), nids)
            return
        import copy as _copy
        self.real[to] = rv
        self.model[to] = {"nodes": {v: list(m["nodes"][v]) for v in nids},
                          "edges": [_copy.deepcopy(by_id[i]) for i in ids], "fw": None, "index": None,
                          "prepared": None, "ptable": None, "grown_since_prepare": False, "exact": m["exact"],
                          "all_abs": m["all_abs"], "shared": True, "ragged": m.get("ragged", False)}
        m["shared"] = True
        self.groupc = getattr(self, "groupc", 0) + 1
        gid = m.get("group") or self.groupc
        m["group"] = gid
        self.model[to]["group"] = gid            # the two networks hold the same Edge and Node objects
        for k in [k for k in self.tracks if k[0] == to]:
            del self.tracks[k]
        # files the previous network of that session saved describe another network
        for k in [k for k, f in getattr(self, "files", {}).items() if f["owner"] == to]:
            del self.files[k]
        getattr(self, "idx_files", {}).pop("/sim/index_%d.pkl" % to, None)
        self.probe("sub_network_becomes_a_session")

    def op_simplify(self, st):
        """Network.simplify replaces every edge geometry (Douglas-Peucker).  Which
        vertices survive is C16's subject and is not judged: the model adopts the
        new polylines (end points must stay) and later routes must be built from
        them, not from anything remembered from before."""
        net, m = self._sess(st)
        if not m["edges"] or any(e["pts"][0] == e["pts"][-1] for e in m["edges"]):
            raise Skip()            # closed geometries: division by zero in the simplifier (C16, not claimed)
        if m.get("shared") and not m.get("group"):
            raise Skip()
        if any(p == q for e in m["edges"] for p, q in zip(e["pts"], e["pts"][1:])):
            raise Skip()
        for e in m["edges"]:
            # nothing but addEdge / simplify / reload may have touched the stored geometries
            pts = [[o.position.getX(), o.position.getY()] for o in net.getEdge(e["id"]).geom]
            if pts != e["pts"]:
                self.fail("C07", "network.geometry_changed", "the stored geometry of edge %s changed although no "
                          "step edited the network (a result handed to the caller shares objects with it)" % e["id"],
                          e["pts"], pts)
                return
        _, exc = self.call(net.simplify, st["tol"], 1)
        if exc is not None:
            return self._unexpected("C07", exc, "Network.simplify")
        for k, e in enumerate(m["edges"]):
            g = net.getEdge(e["id"]).geom
            pts = [[o.position.getX(), o.position.getY()] for o in g]
            if len(pts) != len(e["pts"]):
                self.probe("edge_geometry_changed_by_simplify")
            e["pts"] = pts          # adopted, whatever the simplifier kept (C16's subject)
        m["all_abs"] = False
        m["index"] = None if m["index"] is None else m["index"]
        for k in [k for k in self.tracks if k[0] == st.get("s", 0)]:
            del self.tracks[k]              # states decoded on the old geometries say nothing any more
        if m.get("group"):
            # an extracted sub-network and its parent hold the same Edge objects (by design): the
            # geometries of the common edges changed in every network of the group
            self.probe("simplification_reaches_the_networks_sharing_the_edges")
            for s2, m2 in self.model.items():
                if m2 is m or m2.get("group") != m["group"]:
                    continue
                for e2 in m2["edges"]:
                    g2 = self.real[s2].getEdge(e2["id"]).geom
                    e2["pts"] = [[o.position.getX(), o.position.getY()] for o in g2]
                m2["all_abs"] = False
                for k in [k for k in self.tracks if k[0] == s2]:
                    del self.tracks[k]

    # ------------------------------------------------------------------ C10 ops
    def _extent(self, m):
        xs = [p[0] for e in m["edges"] for p in e["pts"]]
        ys = [p[1] for e in m["edges"] for p in e["pts"]]
        return min(xs), max(xs), min(ys), max(ys)

    def op_index(self, st):
        net, m = self._sess(st)
        if not m["edges"]:
            raise Skip()
        x0, x1, y0, y1 = self._extent(m)
        ax, ay = (x1 - x0) * (1 + 2 * st["margin"]), (y1 - y0) * (1 + 2 * st["margin"])
        if ax < 1e-6 or ay < 1e-6:
            raise Skip()            # degenerate extent: SpatialIndex divides by a zero cell count (outside C10)
        if st["frac"] is None and min(ax, ay) / max(ax, ay) < 0.02:
            raise Skip()            # default resolution gives a zero cell count for very elongated extents (outside C10)
        res = None if st["frac"] is None else (ax * st["frac"][0], ay * st["frac"][1])
        if res is not None and abs(1 / st["frac"][0] - 1 / st["frac"][1]) > 2:
            self.probe("non_square_cells")
        _, exc = self.call(net.createSpatialIndex, res, st["margin"], False)
        if exc is not None:
            return self._unexpected("C10", exc, "createSpatialIndex")
        m["index"] = {"extent": (x0 - (x1 - x0) * st["margin"], x1 + (x1 - x0) * st["margin"],
                                 y0 - (y1 - y0) * st["margin"], y1 + (y1 - y0) * st["margin"])}

    def _map(self, st, obs, where):
        from tracklib.core import Track, Obs, ENUCoords, ObsTime, TrackCollection
        from tracklib.algo.mapping import mapOnNetwork
        net, m = self._sess(st)
        s = st.get("s", 0)
        if obs and m["edges"] and (m["index"] is None or m["prepared"] is None) and where == "map" \
                and len(obs) % 3 == 0 and m.get("broken") is None:
            # the user forgot to index or to prepare the network: the matching is refused (or does what it
            # can); nothing it needed for itself may stay behind on the network
            tr0 = Track([Obs(ENUCoords(x, y, 0.0), ObsTime(2020, 1, 1, 0, 0, k % 60)) for k, (x, y) in enumerate(obs)])
            had_table = m["prepared"] is not None
            _, exc0 = self.call(mapOnNetwork, tr0, net, st["noise"], st["tcost"], st["radius"], False)
            if exc0 is not None and not isinstance(exc0, Exception):
                return self._unexpected("C10", exc0, "mapOnNetwork on a network that is not ready")
            self.stats["fault_fired:rejected_request"] += 1
            self.probe("matching_requested_on_a_network_that_is_not_ready")
            if not had_table and net.DISTANCES:
                self.fail("C06", "table.pairs", "mapOnNetwork on a network that was never prepared left %d entries in its "
                          "table of prepared distances" % len(net.DISTANCES), "no table", len(net.DISTANCES))
            return "rejected"
        if m["index"] is None or m["prepared"] is None or not m["all_abs"] or not obs:
            raise Skip()
        key = (s, st.get("slot", 0))
        again = where == "remap"
        if again:
            tr = self.tracks[key]["real"]
            self.probe("second_mapping_of_the_same_track")
            if st.get("note") and not tr.hasAnalyticalFeature("note"):
                # between the two matchings the owner of the track stores a feature of his own on it
                _, exc0 = self.call(tr.createAnalyticalFeature, "note", 1.5)
                if exc0 is None:
                    self.probe("feature_created_between_two_matchings")
        else:
            z = st.get("z", 0.0)
            if z:
                self.probe("track_with_altitude_on_a_flat_network")
            tm = st.get("tmode", "inc")
            if tm != "inc":
                self.probe("track_whose_timestamps_do_not_increase")
            sec = (lambda k: k % 60) if tm == "inc" else ((lambda k: 59 - k % 60) if tm == "rev" else (lambda k: 30))
            tr = Track([Obs(ENUCoords(x, y, z), ObsTime(2020, 1, 1, 0, 0, sec(k))) for k, (x, y) in enumerate(obs)])
            self.tracks[key] = {"real": tr, "obs": obs}
        if m["grown_since_prepare"]:
            self.probe("mapping_after_addEdge")
        last = getattr(self, "_last_map_session", None)
        if last is not None and last != s:
            self.probe("alternation_of_two_networks")
        self._last_map_session = s
        radius = st["radius"]
        group = [(tr, obs)]
        if st.get("coll"):
            other = self.tracks.get((s, 1 - st.get("slot", 0)))
            if other is not None and other["real"] is not tr:
                group.append((other["real"], other["obs"]))
                self.probe("collection_of_two_tracks")
        snaps = [[(o.position.getX(), o.position.getY(), o.position.getZ(), o.timestamp.toAbsTime()) for o in g]
                 for g, _ in group]
        on_vertical = False
        for _, ob in group:
            for (x, y) in ob:
                for e in m["edges"]:
                    for a, b in zip(e["pts"], e["pts"][1:]):
                        if a[0] == b[0] == x:
                            on_vertical = True
        if on_vertical:
            self.probe("on_vertical")
        arg = TrackCollection([g for g, _ in group]) if st.get("coll") else tr
        fault = st.get("fault")
        debug = bool(st.get("debug"))
        if debug:
            self.probe("debug_mode_writes_candidates_to_disk")
        if fault:
            # a notebook user interrupts a long matching (Ctrl-C), or the debug file cannot be
            # opened / written (disk full): the process and the module globals of
            # tracklib.algo.mapping live on; later calls are held to every oracle
            self.fs.plan.arm(fault)
            self.stats["fault_armed:" + fault["kind"]] += 1
            if fault["kind"] == "interrupt":
                with simfs.Interrupter(self.fs.plan, traced=MAP_TRACED):
                    _, exc = self.call(mapOnNetwork, arg, net, st["noise"], st["tcost"], radius, debug)
            else:
                _, exc = self.call(mapOnNetwork, arg, net, st["noise"], st["tcost"], radius, debug)
            fired = self.fs.plan.fired
            self.fs.plan.clear()
            if fired:
                self.stats["fault_fired:" + fault["kind"]] += 1
                for k2 in [k2 for k2, v in self.tracks.items() if any(v["real"] is g for g, _ in group)]:
                    if fault["kind"] == "interrupt" and st.get("s", 0) % 2 == 0 and len(obs) % 2 == 0:
                        # the user keeps the track and will match it again (its states are not looked at meanwhile)
                        self.tracks[k2].pop("radius", None)
                        self.probe("track_of_an_interrupted_matching_kept_for_a_retry")
                    else:
                        del self.tracks[k2]          # the half-processed tracks are thrown away
                self.probe("interrupted_map_matching" if fault["kind"] == "interrupt" else
                           "map_matching_failed_on_its_debug_file")
                if exc is None:
                    self.probe("fault_swallowed_by_call")
                return "fault"
        elif st.get("defaults"):
            self.probe("map_matching_with_default_parameters")
            _, exc = self.call(mapOnNetwork, arg, net)
        else:
            _, exc = self.call(mapOnNetwork, arg, net, st["noise"], st["tcost"], radius, debug)
        if exc is not None:
            import traceback
            tb = traceback.extract_tb(exc.__traceback__)
            frame = tb[-1].name if tb else "?"
            for k2 in [k2 for k2, v in self.tracks.items() if any(v["real"] is g for g, _ in group)]:
                del self.tracks[k2]
            return self._unexpected("C10", exc, where, frame=frame, on_vertical=on_vertical)
        total = 0
        for (g, ob), snap in zip(group, snaps):
            nm = self._judge_mapping(g, ob, snap, m, radius, where)
            if nm is None:
                return
            total += nm
        for k2, v in self.tracks.items():
            if any(v["real"] is g for g, _ in group):
                v["radius"], v["z"] = (50 if st.get("defaults") else radius), st.get("z", v.get("z", 0.0))
        if st.get("scribble"):
            # the matched points belong to the caller: he moves them in place (a "snapped" track shifted
            # for display); the states of these tracks are not looked at again, the network must not move
            for g, ob in group:
                for k in range(len(ob)):
                    inf = g["hmm_inference", k]
                    if inf[1] != -1:
                        inf[0].setX(inf[0].getX() + 3.0)
                        inf[0].setY(inf[0].getY() - 2.0)
            for k2, v in self.tracks.items():
                if any(v["real"] is g for g, _ in group):
                    v.pop("radius", None)
            self.probe("caller_edits_matched_points_in_place")
        # every track matched earlier (by this or another session) still carries the states that
        # were decoded for *it*: a matching never reaches into another track
        for k2, v in sorted(self.tracks.items()):
            if "radius" not in v or any(v["real"] is g for g, _ in group) or k2[0] not in self.model:
                continue
            snap2 = [(o.position.getX(), o.position.getY(), o.position.getZ(), o.timestamp.toAbsTime())
                     for o in v["real"]]
            if self._judge_mapping(v["real"], v["obs"], snap2, self.model[k2[0]], v["radius"],
                                   "%s (states of the track matched earlier in slot %s)" % (where, list(k2))) is None:
                return
            self.probe("earlier_matching_re_judged")
        self.stats["matched_observations"] += total
        self.observed([total, sum(len(ob) for _, ob in group)])

    def _judge_mapping(self, tr, obs, snap, m, radius, where):
        after = [(o.position.getX(), o.position.getY(), o.position.getZ(), o.timestamp.toAbsTime()) for o in tr]
        if after != snap:
            self.fail("C10", "map.track_changed", where + ": positions / timestamps of the track changed", snap, after)
            return None
        nmatched = 0
        for k, (x, y) in enumerate(obs):
            inf = tr["hmm_inference", k]
            if not (isinstance(inf, tuple) and len(inf) == 4):
                self.fail("C10", "map.state", where + ": inferred state of observation %d" % k,
                          "(point, edge, ds, dt)", repr(inf))
                return None
            p, e, ds, dt = inf
            if e == -1:
                self.probe("unmatched_observation")
                continue
            nmatched += 1
            if not (isinstance(e, int) and 0 <= e < len(m["edges"])):
                self.fail("C10", "map.edge", where + ": observation %d refers to edge number %r" % (k, e),
                          "0..%d" % (len(m["edges"]) - 1), e)
                return None
            pts = m["edges"][e]["pts"]
            q = (p.getX(), p.getY())
            L = plen(pts)
            tol = 1e-6 * max(1.0, L)
            best, arcs = arcs_on_poly(q, pts, tol)
            # a segment that is almost, but not exactly, vertical (what a vertical road becomes after a
            # change of coordinates): the projection of the library loses digits there (known finding)
            nearly_vertical = any(0 < abs(a[0] - b[0]) < 1e-6 * abs(a[1] - b[1]) for a, b in zip(pts, pts[1:]))
            ratios = [abs(a[0] - b[0]) / abs(a[1] - b[1]) for a, b in zip(pts, pts[1:])
                      if 0 < abs(a[0] - b[0]) < 1e-6 * abs(a[1] - b[1])]
            self._dbg_ratio = min(ratios) if ratios else None
            if best > tol:
                self.fail("C10", "map.on_edge", where + ": matched point of observation %d is not on edge %d (%s)"
                          % (k, e, m["edges"][e]["id"]), "distance to the edge geometry <= %g" % tol, best,
                          point=list(q), nearly_vertical=nearly_vertical, below_1cm=best < 0.01, dx_over_dy=self._dbg_ratio,
                          ulp_vertical=self._dbg_ratio is not None and self._dbg_ratio < 1e-9)
                return None
            do = math.dist(q, (x, y))
            if do > radius + 1e-9:
                self.fail("C10", "map.radius", where + ": matched point of observation %d is farther than the search "
                          "radius" % k, radius, do, nearly_vertical=nearly_vertical, below_1cm=(do - radius) < 0.01, dx_over_dy=self._dbg_ratio,
                          ulp_vertical=self._dbg_ratio is not None and self._dbg_ratio < 1e-9)
                if nearly_vertical and ((do - radius) < 0.01 or (self._dbg_ratio or 1) < 1e-9) and not self.violations:
                    continue            # recorded as a known finding: the rest of the track is still judged
                return None
            if abs(ds + dt - L) > 1e-6 * max(1.0, L):
                self.fail("C10", "map.sum", where + ": distances to the two end nodes of edge %d do not add up to its "
                          "length (observation %d)" % (e, k), L, [ds, dt])
                return None
            if not any(abs(ds - a) <= 2e-6 * max(1.0, L) for a in arcs):
                self.fail("C10", "map.abscissa", where + ": distance to the source end is not the arc length of the "
                          "matched point (observation %d, edge %d)" % (k, e), arcs[:3], ds)
                return None
        return nmatched

    def op_map(self, st):
        return self._map(st, st["obs"], "map")

    def op_map_span(self, st):
        """A second user takes a time-window copy (extractSpanTime over the whole duration) of a
        track that has been matched and matches the copy with his own parameters: the copy is an
        independent track, the original keeps the states decoded for it."""
        from tracklib.core import ObsTime
        s = st.get("s", 0)
        src = self.tracks.get((s, 1 - st.get("slot", 0)))
        if src is None or "radius" not in src or s not in self.model:
            raise Skip()
        cp, exc = self.call(src["real"].extractSpanTime, ObsTime(1970, 1, 1, 0, 0, 0), ObsTime(2099, 1, 1, 0, 0, 0))
        if exc is not None or cp is None or cp.size() != len(src["obs"]):
            raise Skip()
        self.tracks[(s, st.get("slot", 0))] = {"real": cp, "obs": [list(o) for o in src["obs"]], "z": src.get("z", 0.0)}
        self.probe("time_window_copy_of_a_matched_track_is_matched")
        return self._map(dict(st, z=src.get("z", 0.0)), src["obs"], "remap")

    def op_remap(self, st):
        key = (st.get("s", 0), st.get("slot", 0))
        if key not in self.tracks:
            raise Skip()
        return self._map(st, self.tracks[key]["obs"], "remap")


def simfs_random(i, j, step):
    """Deterministic small perturbation of grid node (i, j): half of the nodes
    stay exactly on the lattice (horizontal / vertical edges exist)."""
    import hashlib
    h = hashlib.sha256(("%d:%d:%s" % (i, j, step)).encode()).digest()
    if h[0] & 1:
        return (0.0, 0.0)
    return ((h[1] / 255.0) * 2 - 1, (h[2] / 255.0) * 2 - 1)


class _NumpyShim:
    """The name `np` seen by tracklib.core.network: save / load of the prepared table go to
    the simulated disk (fault plan included), everything else is the real numpy."""

    def __init__(self, real, fs):
        self._real = real
        self._fs = fs
        self._blobs = {}

    def __getattr__(self, name):
        return getattr(self._real, name)

    def save(self, filename, obj, *a, **k):
        import copy
        import errno
        path = filename if filename.endswith(".npy") else filename + ".npy"
        if self._fs.plan.tick("open"):
            raise OSError(self._fs.plan.errno, "cannot open", path)
        self._blobs.pop(path, None)                      # truncation at open
        if self._fs.plan.tick("write"):
            raise OSError(self._fs.plan.errno or errno.ENOSPC, "write failed", path)
        self._blobs[path] = copy.deepcopy(obj)
        self._fs.bytes_written += 1

    def load(self, filename, *a, **k):
        import copy
        import pickle
        path = filename
        if self._fs.plan.tick("open"):
            raise OSError(self._fs.plan.errno, "cannot open", path)
        if path not in self._blobs:
            raise FileNotFoundError(2, "No such file or directory", path)
        if self._fs.plan.tick("read"):
            raise pickle.UnpicklingError("pickle data was truncated")
        return self._real.array(copy.deepcopy(self._blobs[path]), dtype=object)
