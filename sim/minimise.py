"""Minimisation of a failing run on its concrete step list.

Steps are self-contained and total, so any subsequence can be executed.  A
candidate is kept only when it fails with the same (property, oracle).
"""
import copy

from . import kernel

_RUNNER = {"fn": None, "prelude": None}


def _fails(cls, cfg, steps, key):
    """Execute a candidate; every test runs in a fresh fork of a pristine process
    when a runner is installed (see pristine.py), else in this process."""
    if _RUNNER["fn"] is not None:
        res = _RUNNER["fn"](cfg, steps, _RUNNER["prelude"])
        if not res.get("ok"):
            return None     # a shrunk candidate the world cannot execute is simply not kept
    else:
        try:
            res = kernel.replay_run(cls, cfg, steps)
        except Exception:
            return None
    for v in res["violations"]:
        if (v["property"], v["oracle"]) == key:
            return res
    return None


def minimise_prelude(cls, cfg, steps, key, prelude):
    """Drop whole earlier runs (the state they leave in the process is what the
    failing run depends on) while the failure persists."""
    def test(cand):
        _RUNNER["prelude"] = cand
        return _fails(cls, cfg, steps, key)
    cur = list(prelude)
    n = 2
    while len(cur) >= 1:
        size = max(1, len(cur) // n)
        chunks = [cur[i:i + size] for i in range(0, len(cur), size)]
        reduced = False
        for i in range(len(chunks)):
            cand = [x for j, c in enumerate(chunks) if j != i for x in c]
            if test(cand):
                cur = cand
                n = max(n - 1, 2)
                reduced = True
                break
        if not reduced:
            if size == 1:
                break
            n = min(len(cur), n * 2)
    # then shrink the steps of each surviving prelude run
    for k in range(len(cur)):
        st = cur[k]["steps"]
        i = 0
        while i < len(st):
            cand_run = dict(cur[k], steps=st[:i] + st[i + 1:])
            cand = cur[:k] + [cand_run] + cur[k + 1:]
            if test(cand):
                cur, st = cand, cand_run["steps"]
            else:
                i += 1
    _RUNNER["prelude"] = cur
    return cur


def ddmin(cls, cfg, steps, key, budget=400):
    n = 2
    tests = 0
    while len(steps) >= 2 and tests < budget:
        size = max(1, len(steps) // n)
        chunks = [steps[i:i + size] for i in range(0, len(steps), size)]
        reduced = False
        for i in range(len(chunks)):
            cand = [s for j, c in enumerate(chunks) if j != i for s in c]
            tests += 1
            if cand and _fails(cls, cfg, cand, key):
                steps = cand
                n = max(n - 1, 2)
                reduced = True
                break
        if not reduced:
            if size == 1:
                break
            n = min(len(steps), n * 2)
    return steps


def _shrink_candidates(step):
    """Simpler variants of one step (generic: drop the fault, zero the clock
    advance, halve list-valued payloads, drop optional decorations)."""
    if "fault" in step:
        c = copy.deepcopy(step)
        del c["fault"]
        yield c
    if step.get("dt"):
        c = copy.deepcopy(step)
        c["dt"] = 0
        yield c
    for key in ("af", "ls"):
        if key in step and step[key]:
            c = copy.deepcopy(step)
            c[key] = 0 if key == "ls" else False
            yield c

    def lists(obj, path=()):
        if isinstance(obj, dict):
            for k, v in obj.items():
                yield from lists(v, path + (k,))
        elif isinstance(obj, list):
            if path and path[-1] in ("obs", "tracks", "edges", "values", "idx", "pattern") and len(obj) > 1 \
                    and (path[-1] in ("idx", "pattern", "values") or all(isinstance(e, (list, dict)) for e in obj)):
                yield path
            for i, v in enumerate(obj):
                yield from lists(v, path + (i,))

    for path in list(lists(step)):
        for part in (0, 1):
            c = copy.deepcopy(step)
            tgt = c
            for p in path[:-1]:
                tgt = tgt[p]
            lst = tgt[path[-1]]
            half = len(lst) // 2
            tgt[path[-1]] = lst[:half] if part == 0 else lst[half:]
            if tgt[path[-1]]:
                yield c
    if isinstance(step.get("track"), dict) and "af" in step["track"]:
        c = copy.deepcopy(step)
        del c["track"]["af"]
        yield c
    if isinstance(step.get("tree"), list):
        # expression trees (track world): hoist a sub-expression into the place of its parent
        def subtrees(t, path=()):
            if t[0] == "b":
                yield from ((path + (i,), t[i]) for i in (2, 3))
                yield from subtrees(t[2], path + (2,))
                yield from subtrees(t[3], path + (3,))
            elif t[0] == "f":
                yield (path + (2,), t[2])
                yield from subtrees(t[2], path + (2,))
        for path, sub in list(subtrees(step["tree"])):
            if sub[0] == "l":
                continue
            c = copy.deepcopy(step)
            if len(path) == 1:
                c["tree"] = copy.deepcopy(sub)
            else:
                tgt = c["tree"]
                for q in path[:-2]:
                    tgt = tgt[q]
                tgt[path[-2]] = copy.deepcopy(sub)
            yield c


def shrink_args(cls, cfg, steps, key, budget=300):
    tests = 0
    changed = True
    while changed and tests < budget:
        changed = False
        for i in range(len(steps)):
            for cand_step in _shrink_candidates(steps[i]):
                cand = steps[:i] + [cand_step] + steps[i + 1:]
                tests += 1
                if _fails(cls, cfg, cand, key):
                    steps = cand
                    changed = True
                    break
                if tests >= budget:
                    break
            if changed or tests >= budget:
                break
    return steps


def minimise(cls, cfg, steps, violation, runner=None, prelude=None):
    key = (violation["property"], violation["oracle"])
    _RUNNER["fn"], _RUNNER["prelude"] = runner, None
    if not _fails(cls, cfg, steps, key):
        # state left by the earlier runs of the same process may be part of the failure
        _RUNNER["prelude"] = prelude
        if not prelude or not _fails(cls, cfg, steps, key):
            return steps, None, None   # not reproducible: caller reports a harness error
        minimise_prelude(cls, cfg, steps, key, prelude)
    steps = ddmin(cls, cfg, steps, key)
    steps = shrink_args(cls, cfg, steps, key)
    steps = ddmin(cls, cfg, steps, key, budget=100)
    if _RUNNER["prelude"]:
        minimise_prelude(cls, cfg, steps, key, _RUNNER["prelude"])
    res = _fails(cls, cfg, steps, key)
    return steps, res, _RUNNER["prelude"]
