"""Deterministic simulation with fault injection for tracklib (see /verif/DESIGN.md)."""
