"""Simulation kernel: seed tree, world base class, run loop, event log, digests.

One *run* is: seed -> configuration (swarm) -> sequence of steps, each step being
exactly one public API call of one simulated session, executed against the real
tracklib imported from the tree named by PYTHONPATH, with the reference model
updated and the oracles evaluated after every step.

Steps are self-contained JSON objects (explicit arguments, explicit fault with
its own position) and *total* (a false precondition on the reference model turns
the step into a logged no-op), so every subsequence of a step list is
executable.  That is what replay files and the minimiser rely on.
"""
import hashlib
import json
import os
import random
import signal
import sys
from collections import Counter


class HarnessError(Exception):
    """A bug in the simulator / model / oracle.  Never reported as a violation."""


class Skip(Exception):
    """Precondition of a step is false on the reference model: logged no-op."""


class InjectedInterrupt(KeyboardInterrupt):
    """KeyboardInterrupt raised by the simulator inside a traced tracklib frame."""


class SimCrash(BaseException):
    """Simulated process crash (raised out of a write on the simulated disk)."""


class StepTimeout(BaseException):
    """A single step (one API call plus its oracle) exceeded STEP_LIMIT_S of CPU
    time: the call hangs.  Reported as a violation of the property that promises
    the call's outcome, never silently killed."""


STEP_LIMIT_S = float(os.environ.get("VERIF_STEP_LIMIT", "5"))


def _on_alarm(signum, frame):
    raise StepTimeout()


def h64(*parts):
    m = hashlib.sha256("|".join(str(p) for p in parts).encode()).digest()
    return int.from_bytes(m[:8], "big")


def run_seed(world, batch_seed, index):
    return h64(world, batch_seed, index)


class Rngs:
    """Labelled sub-generators derived from one integer: a new draw under one
    label never shifts the sequence seen under another."""

    def __init__(self, seed):
        self.seed = seed
        self._cache = {}

    def __call__(self, label):
        r = self._cache.get(label)
        if r is None:
            r = self._cache[label] = random.Random(h64(self.seed, label))
        return r


def canon(obj):
    return json.dumps(obj, sort_keys=True, separators=(",", ":"), default=_default)


def _default(o):
    if isinstance(o, (set, frozenset)):
        return sorted(o)
    if isinstance(o, tuple):
        return list(o)
    if hasattr(o, "tolist") and callable(o.tolist):  # numpy scalars and arrays read from real objects
        return o.tolist()
    try:
        return list(o)
    except TypeError:
        return repr(o)


def short_digest(obj):
    return hashlib.sha256(canon(obj).encode()).hexdigest()[:16]


_SIM_DIR = os.path.dirname(os.path.abspath(__file__))


_KNOWN = None


def known_findings():
    """known_findings.json (committed, never written at run time)."""
    global _KNOWN
    if _KNOWN is None:
        path = os.path.join(os.path.dirname(_SIM_DIR), "known_findings.json")
        _KNOWN = json.load(open(path)) if os.path.exists(path) else {"findings": [], "fixed": []}
    return _KNOWN


def match_known(violation, known=None):
    """A finding matches a violation iff property and oracle are equal and every
    listed detail key has the listed value: a different violation of the same
    property is still reported."""
    known = known if known is not None else known_findings()
    for f in known.get("findings", []):
        if f["property"] != violation["property"] or f["oracle"] != violation["oracle"]:
            continue
        det = violation.get("detail") or {}
        if all(det.get(k) == v for k, v in (f.get("detail") or {}).items()):
            return f
    return None


class _Sink:
    def write(self, s):
        return len(s)

    def flush(self):
        pass

    def isatty(self):
        return False


SINK = _Sink()


class World:
    """Base class of the three simulated worlds."""

    NAME = ""
    PROPS = ()
    # op kinds able to falsify each property (used for the non-triviality rule)
    FALSIFIERS = {}
    # ops that only read the real objects: a sibling property failing there does not end the run
    READ_ONLY_OPS = ()

    def __init__(self, cfg):
        self.cfg = cfg
        self.stats = Counter()
        self.violations = []
        self.notes = []
        self.abs_states = set()
        self.abs_trans = set()
        self.sim_seconds = 0.0
        self.step_index = -1
        self.cur = None
        self.op_kinds = []
        self._result = None

    # ---- to be provided by subclasses -------------------------------------
    @classmethod
    def draw_config(cls, rng, focus):
        raise NotImplementedError

    @classmethod
    def deepen(cls, cfg, r):
        cfg["nsteps"] = min(cfg["nsteps"] * 3, 360)

    def setup(self):
        pass

    def teardown(self):
        pass

    def gen(self, rngs):
        raise NotImplementedError

    def abstract_state(self):
        return None

    def prop_of(self, step):
        """Property whose oracle judges this kind of step."""
        for p, ops in self.FALSIFIERS.items():
            if step["op"] in ops:
                return p
        return self.PROPS[0]

    # ---- helpers -------------------------------------------------------------
    def probe(self, name, n=1):
        self.stats["probe:" + name] += n

    def fail(self, prop, oracle, message, expected=None, observed=None, **detail):
        v = {"property": prop, "oracle": oracle, "message": message,
             "expected": expected, "observed": observed, "step": self.step_index}
        if detail:
            v["detail"] = detail
        focus = self.cfg.get("focus")
        if focus and prop != focus and (oracle.startswith("network.") or (
                self.cur is not None and self.cur.get("op") in self.READ_ONLY_OPS)):
            # a sibling property failed on a read-only query (model and real objects are still in
            # step) or in the per-step structure invariant of the net world: the run goes on and
            # the focus property keeps being judged on the real objects; the sibling's own check
            # reports the sibling's violation
            self.stats["foreign:%s:%s" % (prop, oracle)] += 1
            self.note("foreign property=%s oracle=%s: %s" % (prop, oracle, message))
            return
        f = match_known(v)
        if f is not None:
            # a recorded finding: counted, printed by the check as KNOWN-FINDING, and the run
            # goes on (a user who catches the exception keeps working in the same process)
            self.stats["known_finding:" + f["id"]] += 1
            return
        self.violations.append(v)

    def note(self, text):
        if len(self.notes) < 20:
            self.notes.append("step %d: %s" % (self.step_index, text))

    def observed(self, obj):
        """Record the observable result of the step (goes into the digest)."""
        self._result = obj

    def call(self, fn, *a, **k):
        """Run real tracklib code.  Returns (value, exception).  SystemExit,
        injected interrupts and simulated crashes are contained here; a real
        Ctrl-C and harness errors are not."""
        try:
            return fn(*a, **k), None
        except (HarnessError, StepTimeout):
            raise
        except KeyboardInterrupt as e:
            if isinstance(e, InjectedInterrupt):
                return None, e
            raise
        except BaseException as e:  # noqa: BLE001 - SystemExit, SimCrash, anything
            return None, e

    def execute(self, step):
        self.step_index += 1
        self.cur = step
        self._result = None
        op = getattr(self, "op_" + step["op"], None)
        if op is None:
            raise HarnessError("unknown op %r in world %s" % (step["op"], self.NAME))
        before = self.abstract_state()
        try:
            # CPU time of this process, not wall time: a loaded machine must not turn a slow step into a hang
            # (tracks of a thousand fixes, thorough tier only: model and library both take longer)
            limit = STEP_LIMIT_S * (6 if self.cfg.get("size_bias") == "huge" else 1)
            signal.setitimer(signal.ITIMER_VIRTUAL, limit)
            try:
                outcome = op(step) or "ok"
            finally:
                signal.setitimer(signal.ITIMER_VIRTUAL, 0)
        except Skip:
            outcome = "skipped"
        except StepTimeout:
            self.fail(self.prop_of(step), "step.hang", "%s did not return within %g s of CPU time (a step "
                      "normally takes milliseconds)" % (step["op"], limit), "a result", "no return")
            outcome = "hang"
        except HarnessError:
            raise
        except Exception as e:  # noqa: BLE001
            # An exception that escapes from *tracklib* frames while the oracle reads the
            # real objects is a violation (the observable state cannot be read); one
            # raised by simulator / model code is a harness error.
            import traceback
            tb = traceback.extract_tb(e.__traceback__)
            if not tb or tb[-1].filename.startswith(_SIM_DIR):
                raise
            self.fail(self.prop_of(step), "observe.raised", "observing the result of %s raised %s: %s"
                      % (step["op"], type(e).__name__, e), "readable state", repr(e))
            outcome = "raised"
        self.stats["op:" + step["op"]] += 1
        self.stats["outcome:" + outcome] += 1
        self.stats["steps"] += 1
        if outcome != "skipped":
            self.op_kinds.append((step.get("s", 0), step["op"]))
            after = self.abstract_state()
            if after is not None:
                self.abs_states.add(after)
                self.abs_trans.add((before, step["op"], after))
        return outcome, short_digest(self._result)


def execute_run(world_cls, cfg, steps=None, rngs=None):
    """Execute one run.  With `steps` given this is a replay (no PRNG is
    consulted); otherwise steps are drawn from the world's generator."""
    w = world_cls(cfg)
    log = hashlib.sha256()
    done_steps = []
    outcomes = []
    saved_stdout = sys.stdout
    sys.stdout = SINK
    signal.signal(signal.SIGVTALRM, _on_alarm)
    try:
        w.setup()
        i = 0
        limit = len(steps) if steps is not None else cfg["nsteps"]
        while i < limit:
            st = steps[i] if steps is not None else w.gen(rngs)
            if st is None:
                break
            outcome, dig = w.execute(st)
            log.update(canon({"i": i, "step": st, "outcome": outcome, "digest": dig}).encode())
            log.update(b"\n")
            done_steps.append(st)
            outcomes.append(outcome)
            if w.violations:
                break
            i += 1
    finally:
        try:
            w.teardown()
        finally:
            sys.stdout = saved_stdout
    return {
        "world": world_cls.NAME,
        "cfg": cfg,
        "steps": done_steps,
        "outcomes": outcomes,
        "digest": log.hexdigest(),
        "violations": w.violations,
        "stats": w.stats,
        "notes": w.notes,
        "abs_states": w.abs_states,
        "abs_trans": w.abs_trans,
        "sim_seconds": w.sim_seconds,
        "op_kinds": w.op_kinds,
    }


def deep():
    """Thorough tier: a third of the runs use deeper bounds (longer histories,
    larger tracks and graphs) than the quick tier ever draws."""
    return os.environ.get("VERIF_DEEP") == "1"


def generated_run(world_cls, focus, seed):
    rngs = Rngs(seed)
    cfg = world_cls.draw_config(rngs("config"), focus)
    if deep() and rngs("deep").random() < 0.35:
        world_cls.deepen(cfg, rngs("deep"))
        cfg["deep"] = True
    cfg["focus"] = focus
    res = execute_run(world_cls, cfg, None, rngs)
    res["seed"] = seed
    return res


def replay_run(world_cls, cfg, steps):
    return execute_run(world_cls, cfg, steps, None)


def nontrivial(world_cls, res, focus):
    """Rule: at least three executed (non-skipped) steps and at least one
    executed step of a kind that can falsify the focus property."""
    executed = [st["op"] for st, o in zip(res["steps"], res["outcomes"]) if o != "skipped"]
    if len(executed) < 3:
        return False
    fals = world_cls.FALSIFIERS.get(focus, ())
    return any(op in fals for op in executed)


def get_world(name):
    if name == "io":
        from .worlds.io import IoWorld
        return IoWorld
    if name == "track":
        from .worlds.track import TrackWorld
        return TrackWorld
    if name == "net":
        from .worlds.net import NetWorld
        return NetWorld
    raise HarnessError("unknown world " + name)


PROPERTY_WORLD = {"C01": "track", "C04": "track", "C17": "track",
                  "C06": "net", "C07": "net", "C10": "net", "C13": "io"}


def tree_info():
    """Which tracklib is under test (path only; no clock, no PRNG)."""
    import tracklib
    return os.path.dirname(os.path.dirname(os.path.abspath(tracklib.__file__)))
