"""Batches of seeded runs on a process pool; aggregation of coverage counters.

Verdicts do not depend on the worker count: results are gathered per chunk of
run indices and the reported violation is the one with the lowest run index.
"""
import faulthandler
import multiprocessing
import os
import sys
import time
import traceback
from collections import Counter
from concurrent.futures import ProcessPoolExecutor, as_completed

from . import kernel
from .kernel import HarnessError

CHUNK = 40
CHUNK_TIMEOUT_S = 600


def _chunk(args):
    """Pool worker entry: every chunk is executed in a fresh fork of the worker,
    which itself never executes a run, so a chunk always starts from import-time
    process state and a failure can depend at most on the earlier runs of its
    own chunk (they are attached to the violation record as `prefix`)."""
    ctx = multiprocessing.get_context("fork")
    a, b = ctx.Pipe(duplex=False)
    p = ctx.Process(target=_chunk_child, args=(args, b))
    p.start()
    b.close()
    try:
        out = a.recv()
    except EOFError:
        out = None
    p.join()
    a.close()
    if out is None:
        raise HarnessError("chunk %s died (exit code %s): a step hung or the process was killed"
                           % (args[3:5], p.exitcode))
    return out


def _warm():
    """Pool initializer: import (not execute) the library and the worlds, so that
    every chunk fork starts warm but from import-time state."""
    import tracklib  # noqa: F401
    import tracklib.io  # noqa: F401
    for w in ("io", "track", "net"):
        kernel.get_world(w)


def _chunk_child(args, conn):
    try:
        conn.send(_chunk_inner(args))
    finally:
        conn.close()


def _chunk_inner(args):
    world, focus, batch_seed, lo, hi, keep_samples = args
    faulthandler.dump_traceback_later(CHUNK_TIMEOUT_S, exit=True)
    history = []
    try:
        cls = kernel.get_world(world)
        out = {"stats": Counter(), "digests": [], "inter": set(), "abs_states": set(), "abs_trans": set(),
               "violations": [], "notes": [], "samples": [], "runs": 0, "nontrivial": 0,
               "sim_seconds": 0.0, "harness": None}
        from . import simfs
        snap0 = simfs.global_snapshot()
        for i in range(lo, hi):
            seed = kernel.run_seed(world + ":" + focus, batch_seed, i)
            try:
                res = kernel.generated_run(cls, focus, seed)
            except Exception:  # harness bug: report, never a violation
                out["harness"] = "run index %d seed %d:\n%s" % (i, seed, traceback.format_exc())
                break
            out["runs"] += 1
            out["stats"].update(res["stats"])
            out["sim_seconds"] += res["sim_seconds"]
            out["abs_states"] |= res["abs_states"]
            out["abs_trans"] |= res["abs_trans"]
            out["inter"].add(kernel.short_digest(res["op_kinds"]))
            if kernel.nontrivial(cls, res, focus):
                out["nontrivial"] += 1
                out["digests"].append(res["digest"][:16])
            prev = list(history)
            history.append({"config": res["cfg"], "steps": res["steps"]})
            for n in res["notes"]:
                if len(out["notes"]) < 10:
                    out["notes"].append("run %d: %s" % (i, n))
            if res["violations"]:
                out["violations"].append({"index": i, "seed": seed, "cfg": res["cfg"], "steps": res["steps"],
                                          "violations": res["violations"], "digest": res["digest"],
                                          "prefix": prev})
            elif keep_samples and len(out["samples"]) < keep_samples and (
                    kernel.nontrivial(cls, res, focus) or i == hi - 1):
                out["samples"].append({"run_index": i, "seed": seed, "steps": res["steps"],
                                       "outcomes": res["outcomes"]})
        # run hygiene (diagnostic, never decides a property): module- and class-level state of
        # tracklib that outlived the runs of this chunk and is not in the inventory of DESIGN.md 1.2
        changed = [k for k in simfs.diff_snapshots(snap0, simfs.global_snapshot())]
        if changed:
            out["notes"].insert(0, "unlisted global changed (process state outlives a run): " + ", ".join(changed[:4]))
        return out
    finally:
        faulthandler.cancel_dump_traceback_later()


def run_batch(world, focus, batch_seed, n_runs=None, wall_s=None, workers=None, start_index=0,
              stop_on_violation=True, is_known=None):
    """Run `n_runs` runs (or as many chunks as fit in `wall_s`).  `is_known`
    maps a violation record to a known-finding id or None; runs stop early only
    for violations that are not known findings of the focus property."""
    workers = workers or min(16, os.cpu_count() or 1)
    t0 = time.time()
    agg = {"stats": Counter(), "digests": set(), "inter": set(), "abs_states": set(), "abs_trans": set(),
           "violations": [], "notes": [], "samples": [], "runs": 0, "nontrivial": 0, "sim_seconds": 0.0,
           "chunks": 0}
    ctx = multiprocessing.get_context("fork")
    next_lo = start_index
    end = start_index + n_runs if n_runs is not None else None
    stop = False
    with ProcessPoolExecutor(max_workers=workers, mp_context=ctx, initializer=_warm) as ex:
        pending = set()

        def submit():
            nonlocal next_lo
            if end is not None and next_lo >= end:
                return False
            if wall_s is not None and time.time() - t0 > wall_s:
                return False
            hi = next_lo + CHUNK if end is None else min(end, next_lo + CHUNK)
            keep = 2
            pending.add(ex.submit(_chunk, (world, focus, batch_seed, next_lo, hi, keep)))
            next_lo = hi
            return True

        for _ in range(workers * 2):
            if not submit():
                break
        while pending:
            done = next(as_completed(pending))
            pending.discard(done)
            try:
                out = done.result()
            except Exception as e:  # worker died (faulthandler exit, OOM ...)
                raise HarnessError("worker failed: %r" % (e,))
            if out["harness"]:
                raise HarnessError(out["harness"])
            agg["chunks"] += 1
            agg["stats"].update(out["stats"])
            agg["digests"].update(out["digests"])
            agg["inter"] |= out["inter"]
            agg["abs_states"] |= out["abs_states"]
            agg["abs_trans"] |= out["abs_trans"]
            agg["runs"] += out["runs"]
            agg["nontrivial"] += out["nontrivial"]
            agg["sim_seconds"] += out["sim_seconds"]
            agg["notes"].extend(out["notes"][: max(0, 10 - len(agg["notes"]))])
            agg["samples"].extend(out["samples"])
            agg["samples"].sort(key=lambda x: x["run_index"])
            del agg["samples"][3:]
            for v in out["violations"]:
                agg["violations"].append(v)
                mine = [x for x in v["violations"] if x["property"] == focus]
                if mine and stop_on_violation and not (is_known and is_known(v)):
                    stop = True
            if not stop:
                submit()
    agg["violations"].sort(key=lambda v: v["index"])
    agg["wall_s"] = time.time() - t0
    agg["workers"] = workers
    return agg
